// C10 — DHCPv4 never leases one address to two clients; the lease table
// survives restart.  BFS over message / admin / clock / restart histories on
// the real dhcpd server (Create -> v4Server.handle, AddStaticLease, ...,
// onNotify -> dbStore, dbLoad) with invariants on the dumped lease table and a
// small "who was told what" reference model (DESIGN.md §4 C10).
package main

import (
	"encoding/json"
	"fmt"
	"io"
	"net"
	"net/netip"
	"os"
	"runtime/debug"
	"runtime/pprof"
	"sort"
	"strings"
	"time"

	"github.com/AdguardTeam/AdGuardHome/internal/dhcpd"
	"github.com/AdguardTeam/AdGuardHome/internal/verifx/lib"
	vtime "github.com/AdguardTeam/AdGuardHome/verifx/vtime"
	"github.com/AdguardTeam/golibs/log"
	"github.com/insomniacslk/dhcp/dhcpv4"
)

// ---- fixed configuration ------------------------------------------------------

const leaseDur = time.Hour

var (
	epoch = time.Date(2030, 1, 1, 0, 0, 0, 0, time.UTC)

	gateway   = netip.MustParseAddr("10.0.0.1")
	mask      = netip.MustParseAddr("255.255.255.248")
	subnet    = netip.MustParsePrefix("10.0.0.0/29")
	poolStart = netip.MustParseAddr("10.0.0.2")
	poolEnd   = netip.MustParseAddr("10.0.0.4")
	selfIP    = netip.MustParseAddr("10.0.0.5")
	outPool   = netip.MustParseAddr("10.0.0.6") // in the subnet, outside the pool
	outSubnet = netip.MustParseAddr("10.0.1.2")

	pool = []netip.Addr{poolStart, netip.MustParseAddr("10.0.0.3"), poolEnd}

	probeMAC = net.HardwareAddr{0x02, 0, 0, 0, 0, 0x99}
)

func macOf(i int) net.HardwareAddr { return net.HardwareAddr{0x02, 0, 0, 0, 0, byte(i)} }

func poolOffset(ip netip.Addr) int {
	for i, p := range pool {
		if p == ip {
			return i
		}
	}
	return -1
}

// ---- alphabet -----------------------------------------------------------------

type op struct {
	Kind string `json:"op"` // disc req-sel req-reboot req-renew decline release sadd supd srm advance restart
	MAC  int    `json:"mac,omitempty"`
	IP   string `json:"ip,omitempty"`
	Host string `json:"host,omitempty"`
}

func (o op) String() string {
	s := o.Kind
	if o.MAC != 0 {
		s += fmt.Sprintf("(m%d", o.MAC)
		if o.IP != "" {
			s += "," + o.IP
		}
		if o.Host != "" {
			s += "," + o.Host
		}
		s += ")"
	}
	return s
}

func histString(h []op) string {
	var l []string
	for _, o := range h {
		l = append(l, o.String())
	}
	return strings.Join(l, " ; ")
}

func alphabet(quick bool) (ops []op) {
	nmac := 3
	selHosts := []string{"", "h1"}
	renewHosts := []string{""}
	saddHosts := []string{"", "h1"}
	// "H1" is normalised to "h1" by the server.
	supdHosts := []string{"h2", "H1"}
	if !quick {
		nmac = 4
		selHosts = []string{"", "h1", "h2"}
		renewHosts = []string{"", "h2"}
		saddHosts = []string{"", "h1", "h2"}
		supdHosts = []string{"h1", "h2", "H1"}
	}
	var macs []int
	for m := 1; m <= nmac; m++ {
		macs = append(macs, m)
	}
	staticIPs := []netip.Addr{pool[0], pool[1], outPool}
	if !quick {
		staticIPs = []netip.Addr{pool[0], pool[1], pool[2], outPool}
	}
	// Simplest first.
	for _, m := range macs {
		ops = append(ops, op{Kind: "disc", MAC: m})
	}
	ops = append(ops, op{Kind: "advance"}, op{Kind: "restart"}, op{Kind: "off"}, op{Kind: "reset"})
	for _, m := range macs {
		ops = append(ops, op{Kind: "srm", MAC: m})
	}
	for _, m := range macs {
		for _, ip := range pool {
			for _, h := range selHosts {
				ops = append(ops, op{Kind: "req-sel", MAC: m, IP: ip.String(), Host: h})
			}
		}
	}
	for _, k := range []string{"req-reboot", "req-renew"} {
		for _, m := range macs {
			for _, ip := range pool {
				for _, h := range renewHosts {
					ops = append(ops, op{Kind: k, MAC: m, IP: ip.String(), Host: h})
				}
			}
		}
	}
	for _, k := range []string{"release", "decline"} {
		for _, m := range macs {
			for _, ip := range pool {
				ops = append(ops, op{Kind: k, MAC: m, IP: ip.String()})
			}
		}
	}
	for _, m := range macs {
		for _, ip := range staticIPs {
			for _, h := range saddHosts {
				ops = append(ops, op{Kind: "sadd", MAC: m, IP: ip.String(), Host: h})
			}
		}
	}
	ops = append(ops, op{Kind: "sadd", MAC: 1, IP: gateway.String(), Host: "h1"}, op{Kind: "sadd", MAC: 1, IP: outSubnet.String(), Host: "h1"})
	for _, m := range macs {
		for _, ip := range staticIPs {
			for _, h := range supdHosts {
				ops = append(ops, op{Kind: "supd", MAC: m, IP: ip.String(), Host: h})
			}
		}
	}
	ops = append(ops, op{Kind: "supd", MAC: 1, IP: gateway.String(), Host: "h2"})
	if !quick {
		// DISCOVER carrying a requested address.
		for _, m := range macs {
			ops = append(ops, op{Kind: "disc", MAC: m, IP: pool[2].String()})
		}
	}
	return ops
}

// ---- reference model: who was told what ----------------------------------------

type heldLease struct {
	IP  netip.Addr
	Exp time.Time
}

type reservation struct {
	IP netip.Addr
}

// model is the observer's view: which client was last acknowledged which
// address until when, and which reservations the administrator was told were
// accepted.
type model struct {
	held map[int]heldLease
	resv map[int]reservation
}

func newModel() *model { return &model{held: map[int]heldLease{}, resv: map[int]reservation{}} }

// holder returns a client other than except that holds ip (acknowledged and
// unexpired, or reserved).
func (m *model) holder(ip netip.Addr, now time.Time, except int) (who int, how string) {
	for c := 1; c <= 8; c++ {
		if c == except {
			continue
		}
		if r, ok := m.resv[c]; ok && r.IP == ip {
			return c, "reserved"
		}
		if h, ok := m.held[c]; ok && h.IP == ip && h.Exp.After(now) {
			return c, "acknowledged until " + rel(h.Exp, now)
		}
	}
	return 0, ""
}

// freeAddr returns a pool address that is neither leased (acknowledged,
// unexpired) nor reserved.
func (m *model) freeAddr(now time.Time) (ip netip.Addr, ok bool) {
	for _, p := range pool {
		if who, _ := m.holder(p, now, 0); who == 0 {
			return p, true
		}
	}
	return netip.Addr{}, false
}

func (m *model) key(now time.Time) string {
	var sb strings.Builder
	for c := 1; c <= 8; c++ {
		if h, ok := m.held[c]; ok {
			// An expired acknowledgement can never matter again.
			if h.Exp.After(now) {
				fmt.Fprintf(&sb, "H%d=%s/%s;", c, h.IP, rel(h.Exp, now))
			}
		}
		if r, ok := m.resv[c]; ok {
			fmt.Fprintf(&sb, "R%d=%s;", c, r.IP)
		}
	}
	return sb.String()
}

// ---- driver --------------------------------------------------------------------

type result struct {
	RCode  int
	Type   string // offer ack nak none drop
	YIAddr netip.Addr
	Err    string
	Panic  string
	NA     bool
}

func (r result) label() string {
	switch {
	case r.Panic != "":
		return "panic"
	case r.NA:
		return "n/a"
	case r.Type != "":
		if r.YIAddr.IsValid() {
			return r.Type + "+addr"
		}
		return r.Type
	case r.Err != "":
		return "err"
	}
	return "ok"
}

type viol struct{ Key, Desc string }

type instance struct {
	dir string
	srv *dhcpd.VerifC10Server
	// off: DHCP is switched off in the configuration (history starts with
	// the operation "off"); static leases are still managed through the API.
	off bool
}

func newServer(dir string, off bool) (*dhcpd.VerifC10Server, error) {
	return dhcpd.VerifC10New(dhcpd.VerifC10Conf{
		DataDir: dir, Gateway: gateway, Mask: mask, RangeStart: poolStart, RangeEnd: poolEnd,
		Self: selfIP, LeaseSec: uint32(leaseDur / time.Second), Disabled: off,
	})
}

var xid = dhcpv4.TransactionID{0xc1, 0x0c, 0x10, 0x01}

func ip4(a netip.Addr) net.IP { return net.IP(a.AsSlice()) }

func buildReq(o op) *dhcpv4.DHCPv4 {
	mac := macOf(o.MAC)
	var ip netip.Addr
	if o.IP != "" {
		ip = netip.MustParseAddr(o.IP)
	}
	var req *dhcpv4.DHCPv4
	var err error
	mods := []dhcpv4.Modifier{dhcpv4.WithTransactionID(xid), dhcpv4.WithHwAddr(mac)}
	if o.Host != "" {
		mods = append(mods, dhcpv4.WithOption(dhcpv4.OptHostName(o.Host)))
	}
	switch o.Kind {
	case "disc", "probe":
		if ip.IsValid() {
			mods = append(mods, dhcpv4.WithOption(dhcpv4.OptRequestedIPAddress(ip4(ip))))
		}
		req, err = dhcpv4.NewDiscovery(mac, mods...)
	case "req-sel":
		mods = append(mods, dhcpv4.WithMessageType(dhcpv4.MessageTypeRequest),
			dhcpv4.WithOption(dhcpv4.OptRequestedIPAddress(ip4(ip))),
			dhcpv4.WithOption(dhcpv4.OptServerIdentifier(ip4(selfIP))))
		req, err = dhcpv4.New(mods...)
	case "req-reboot":
		mods = append(mods, dhcpv4.WithMessageType(dhcpv4.MessageTypeRequest),
			dhcpv4.WithOption(dhcpv4.OptRequestedIPAddress(ip4(ip))))
		req, err = dhcpv4.New(mods...)
	case "req-renew":
		mods = append(mods, dhcpv4.WithMessageType(dhcpv4.MessageTypeRequest), dhcpv4.WithClientIP(ip4(ip)))
		req, err = dhcpv4.New(mods...)
	case "decline":
		mods = append(mods, dhcpv4.WithMessageType(dhcpv4.MessageTypeDecline),
			dhcpv4.WithOption(dhcpv4.OptRequestedIPAddress(ip4(ip))),
			dhcpv4.WithOption(dhcpv4.OptServerIdentifier(ip4(selfIP))))
		req, err = dhcpv4.New(mods...)
	case "release":
		mods = append(mods, dhcpv4.WithMessageType(dhcpv4.MessageTypeRelease), dhcpv4.WithClientIP(ip4(ip)),
			dhcpv4.WithOption(dhcpv4.OptServerIdentifier(ip4(selfIP))))
		req, err = dhcpv4.New(mods...)
	default:
		panic("buildReq: " + o.Kind)
	}
	if err != nil {
		panic(err)
	}
	return req
}

func staticOf(d *dhcpd.VerifC10Dump, mac net.HardwareAddr) (l dhcpd.VerifC10Lease, ok bool) {
	for _, x := range d.Leases {
		if x.Static && x.MAC == mac.String() {
			return x, true
		}
	}
	return l, false
}

// apply runs one operation on the real code.  A panic is caught and reported.
func (in *instance) apply(o op) (r result) {
	defer func() {
		if p := recover(); p != nil {
			st := strings.Split(string(debug.Stack()), "\n")
			var fr []string
			for _, l := range st {
				if strings.Contains(l, "/internal/dhcpd/") && !strings.Contains(l, "zz_verif") {
					fr = append(fr, strings.TrimSpace(l))
				}
				if len(fr) == 3 {
					break
				}
			}
			r.Panic = fmt.Sprintf("%v at %s", p, strings.Join(fr, " <- "))
		}
	}()
	switch o.Kind {
	case "off":
		// Only meaningful as the first operation (see exec): later it is a
		// no-op in an "off" history and not applicable otherwise.
		r.NA = !in.off
	case "disc", "probe", "req-sel", "req-reboot", "req-renew", "decline", "release":
		if in.off {
			// No listener runs while DHCP is switched off.
			r.NA = true
			return r
		}
		rc, resp, err := in.srv.Handle(buildReq(o))
		if err != nil {
			r.Err = err.Error()
			return r
		}
		r.RCode = rc
		if rc < 0 {
			r.Type = "drop"
			return r
		}
		switch resp.MessageType() {
		case dhcpv4.MessageTypeOffer:
			r.Type = "offer"
		case dhcpv4.MessageTypeAck:
			r.Type = "ack"
		case dhcpv4.MessageTypeNak:
			r.Type = "nak"
		default:
			r.Type = "none"
		}
		if y := resp.YourIPAddr.To4(); y != nil && !y.IsUnspecified() && r.Type != "nak" {
			r.YIAddr, _ = netip.AddrFromSlice(y)
		}
	case "sadd":
		if err := in.srv.AddStatic(macOf(o.MAC), netip.MustParseAddr(o.IP), o.Host); err != nil {
			r.Err = err.Error()
		}
	case "supd":
		if err := in.srv.UpdateStatic(macOf(o.MAC), netip.MustParseAddr(o.IP), o.Host); err != nil {
			r.Err = err.Error()
		}
	case "srm":
		// The UI removes a reservation by sending back the entry it was shown.
		d := in.srv.Dump()
		l, ok := staticOf(&d, macOf(o.MAC))
		if !ok {
			r.NA = true
			return r
		}
		if err := in.srv.RemoveStatic(macOf(o.MAC), l.IP, l.Host); err != nil {
			r.Err = err.Error()
		}
	case "advance":
		vtime.AdvanceVirtual(2 * leaseDur)
	case "reset":
		// POST /control/dhcp/reset_leases: every lease and reservation goes.
		if err := in.srv.ResetLeases(); err != nil {
			r.Err = err.Error()
		}
	case "restart":
		// The running server is dropped (Stop does not store anything) and a new
		// one is created on the same directory: Create -> dbLoad.
		srv, err := newServer(in.dir, in.off)
		if err != nil {
			r.Err = err.Error()
			return r
		}
		in.srv = srv
	default:
		panic("apply: " + o.Kind)
	}
	return r
}

// update moves the reference model by what the observer saw.
func (m *model) update(o op, r result, now time.Time) {
	if r.Panic != "" || r.NA {
		return
	}
	var ip netip.Addr
	if o.IP != "" {
		ip = netip.MustParseAddr(o.IP)
	}
	switch o.Kind {
	case "req-sel", "req-reboot", "req-renew":
		if r.Type == "ack" && r.YIAddr.IsValid() {
			if _, reserved := m.resv[o.MAC]; !reserved {
				m.held[o.MAC] = heldLease{IP: r.YIAddr, Exp: now.Add(leaseDur)}
			}
		}
	case "release":
		if r.Type == "ack" {
			if h, ok := m.held[o.MAC]; ok && h.IP == ip {
				delete(m.held, o.MAC)
			}
		}
	case "decline":
		if r.RCode == 1 {
			if h, ok := m.held[o.MAC]; ok && h.IP == ip {
				delete(m.held, o.MAC)
			}
			if r.Type == "ack" && r.YIAddr.IsValid() {
				// This server answers DECLINE with an ACK naming a new address.
				if _, reserved := m.resv[o.MAC]; !reserved {
					m.held[o.MAC] = heldLease{IP: r.YIAddr, Exp: now.Add(leaseDur)}
				}
			}
		}
	case "sadd":
		if r.Err == "" {
			// A reservation revokes dynamic leases of the same client or address
			// (documented dnsmasq-like behaviour).
			delete(m.held, o.MAC)
			for c, h := range m.held {
				if h.IP == ip {
					delete(m.held, c)
				}
			}
			m.resv[o.MAC] = reservation{IP: ip}
		}
	case "supd":
		if r.Err == "" {
			delete(m.held, o.MAC)
			m.resv[o.MAC] = reservation{IP: ip}
		}
	case "srm":
		if r.Err == "" {
			delete(m.resv, o.MAC)
		}
	case "reset":
		if r.Err == "" {
			m.held, m.resv = map[int]heldLease{}, map[int]reservation{}
		}
	}
}

// ---- dumps and keys ------------------------------------------------------------

func rel(t, now time.Time) string {
	switch {
	case t.IsZero():
		return "0"
	case !t.After(now):
		return "expired"
	}
	return "+" + t.Sub(now).String()
}

func leaseStr(l dhcpd.VerifC10Lease, now time.Time) string {
	k := "dyn"
	if l.Static {
		k = "static"
	}
	return fmt.Sprintf("#%d %s %s %q %s exp=%s", l.ID, l.MAC, l.IP, l.Host, k, rel(l.Expiry, now))
}

func dumpStr(d *dhcpd.VerifC10Dump, now time.Time) string {
	var sb strings.Builder
	sb.WriteString("leases[")
	for _, l := range d.Leases {
		sb.WriteString(leaseStr(l, now) + "; ")
	}
	sb.WriteString("] hosts[")
	for i, h := range d.HostKeys {
		fmt.Fprintf(&sb, "%q->%s; ", h, leaseStr(d.HostVals[i], now))
	}
	sb.WriteString("] ips[")
	for i, ip := range d.IPKeys {
		fmt.Fprintf(&sb, "%s->%s; ", ip, leaseStr(d.IPVals[i], now))
	}
	fmt.Fprintf(&sb, "] bits%v", d.Bits)
	return sb.String()
}

type dbRec struct {
	Expires  string     `json:"expires"`
	IP       netip.Addr `json:"ip"`
	Hostname string     `json:"hostname"`
	MAC      string     `json:"mac"`
	Static   bool       `json:"static"`
}

type dbFile struct {
	Version int     `json:"version"`
	Leases  []dbRec `json:"leases"`
}

// readDB returns the records of leases.json; a missing file is an empty table.
func readDB(path string) (recs []dbRec, raw string, err error) {
	data, err := os.ReadFile(path)
	if err != nil {
		if os.IsNotExist(err) {
			return nil, "(no file)", nil
		}
		return nil, "", err
	}
	var f dbFile
	if err = json.Unmarshal(data, &f); err != nil {
		return nil, string(data), err
	}
	return f.Leases, string(data), nil
}

// recKey is the identity of a lease for "listed exactly once" comparisons.
func recKey(mac string, ip netip.Addr, host string, static bool, exp time.Time) string {
	if static {
		return fmt.Sprintf("%s %s %q static", mac, ip, host)
	}
	return fmt.Sprintf("%s %s %q dyn exp@%d", mac, ip, host, exp.Unix())
}

func memRecs(d *dhcpd.VerifC10Dump) (l []string) {
	for _, x := range d.Leases {
		l = append(l, recKey(x.MAC, x.IP, x.Host, x.Static, x.Expiry))
	}
	sort.Strings(l)
	return l
}

func diskRecs(recs []dbRec) (l []string, err error) {
	for _, x := range recs {
		var exp time.Time
		if !x.Static {
			if exp, err = time.Parse(time.RFC3339, x.Expires); err != nil {
				return nil, fmt.Errorf("record %+v: %w", x, err)
			}
		}
		l = append(l, recKey(x.MAC, x.IP, x.Hostname, x.Static, exp))
	}
	sort.Strings(l)
	return l, nil
}

func diskKey(recs []dbRec, raw string, now time.Time) string {
	if recs == nil {
		return raw
	}
	var sb strings.Builder
	for _, x := range recs {
		e := "-"
		if !x.Static {
			if t, err := time.Parse(time.RFC3339, x.Expires); err == nil {
				e = rel(t, now)
			} else {
				e = x.Expires
			}
		}
		fmt.Fprintf(&sb, "%s %s %q %v %s; ", x.MAC, x.IP, x.Hostname, x.Static, e)
	}
	return sb.String()
}

func hostGen(ip netip.Addr) string { return strings.ReplaceAll(ip.String(), ".", "-") }

// answers is everything DNS and the clients registry can ask.
func (in *instance) answers(d *dhcpd.VerifC10Dump) string {
	var sb strings.Builder
	hosts := map[string]bool{"h1": true, "h2": true}
	for a := subnet.Addr(); subnet.Contains(a); a = a.Next() {
		hosts[hostGen(a)] = true
		fmt.Fprintf(&sb, "HostByIP(%s)=%q MACByIP=%s; ", a, in.srv.HostByIP(a), in.srv.MACByIP(a))
	}
	for _, l := range d.Leases {
		if l.Host != "" {
			hosts[l.Host] = true
		}
	}
	for _, h := range d.HostKeys {
		hosts[h] = true
	}
	var hl []string
	for h := range hosts {
		hl = append(hl, h)
	}
	sort.Strings(hl)
	for _, h := range hl {
		if ip := in.srv.IPByHost(h); ip.IsValid() {
			fmt.Fprintf(&sb, "IPByHost(%q)=%s; ", h, ip)
		}
	}
	var ll []string
	for _, l := range in.srv.Leases() {
		ll = append(ll, recKey(l.HWAddr.String(), l.IP, l.Hostname, l.IsStatic, l.Expiry))
	}
	sort.Strings(ll)
	fmt.Fprintf(&sb, "Leases()=%v", ll)
	return sb.String()
}

// ---- oracle --------------------------------------------------------------------

// checkTable checks the invariants of the dumped lease table.
func checkTable(d *dhcpd.VerifC10Dump, now time.Time, site string) (vs []viol) {
	add := func(class, format string, a ...any) {
		vs = append(vs, viol{class + ":" + site, fmt.Sprintf(format, a...) + "\ntable: " + dumpStr(d, now)})
	}
	seenID := map[int]bool{}
	var recs []dhcpd.VerifC10Lease // distinct records
	for _, l := range d.Leases {
		if l.ID < 0 {
			add("table:nil-lease", "the lease list holds a nil entry")
			continue
		}
		if seenID[l.ID] {
			add("table:same-lease-listed-twice", "the lease list holds the same lease record twice: %s", leaseStr(l, now))
			continue
		}
		seenID[l.ID] = true
		recs = append(recs, l)
	}
	for i := range recs {
		for j := i + 1; j < len(recs); j++ {
			a, b := recs[i], recs[j]
			if a.IP == b.IP {
				add("table:two-leases-one-address", "two lease records share address %s: [%s] and [%s]", a.IP, leaseStr(a, now), leaseStr(b, now))
			}
			if a.MAC == b.MAC {
				add("table:two-leases-one-client", "client %s has two lease records: [%s] and [%s]", a.MAC, leaseStr(a, now), leaseStr(b, now))
			}
		}
	}
	for _, l := range recs {
		switch {
		case l.IP == gateway:
			add("table:lease-on-gateway", "a lease record has the gateway address: %s", leaseStr(l, now))
		case !l.Static && poolOffset(l.IP) < 0:
			add("table:dynamic-lease-outside-pool", "a dynamic lease lies outside the pool %s-%s: %s", poolStart, poolEnd, leaseStr(l, now))
		case l.Static && !subnet.Contains(l.IP):
			add("table:static-lease-outside-subnet", "a static lease lies outside %s: %s", subnet, leaseStr(l, now))
		}
	}
	// Hostname index <-> list.
	for i, h := range d.HostKeys {
		v := d.HostVals[i]
		if v.ID < 0 || v.Host != h {
			add("index:stale-hostname-entry", "hostname index maps %q to [%s], which is %s", h, leaseStr(v, now),
				map[bool]string{true: "not in the lease list", false: "a lease with another hostname"}[v.ID < 0])
		}
	}
	for _, l := range recs {
		if l.Host == "" {
			continue
		}
		found := false
		for i, h := range d.HostKeys {
			if h == l.Host && d.HostVals[i].ID == l.ID {
				found = true
			}
		}
		if !found {
			add("index:missing-hostname-entry", "lease [%s] is not what the hostname index holds for %q", leaseStr(l, now), l.Host)
		}
	}
	// IP index <-> list.
	for i, ip := range d.IPKeys {
		v := d.IPVals[i]
		if v.ID < 0 || v.IP != ip {
			add("index:stale-ip-entry", "IP index maps %s to [%s], which is %s", ip, leaseStr(v, now),
				map[bool]string{true: "not in the lease list", false: "a lease with another address"}[v.ID < 0])
		}
	}
	for _, l := range recs {
		found := false
		for i, ip := range d.IPKeys {
			if ip == l.IP && d.IPVals[i].ID == l.ID {
				found = true
			}
		}
		for _, o := range recs {
			if o.ID != l.ID && o.IP == l.IP {
				found = true // two records on one address: reported above
			}
		}
		if !found {
			add("index:missing-ip-entry", "lease [%s] is not what the IP index holds for %s", leaseStr(l, now), l.IP)
		}
	}
	// Pool bitset <-> list.
	bits := map[uint64]bool{}
	for _, b := range d.Bits {
		bits[b] = true
		if b >= uint64(len(pool)) {
			add("bitset:bit-outside-pool", "pool bitset has bit %d set; the pool has %d addresses", b, len(pool))
			continue
		}
		has := false
		for _, l := range recs {
			if l.IP == pool[b] {
				has = true
			}
		}
		if !has {
			add("bitset:bit-set-without-lease", "pool bitset marks offset %d (%s) as leased but no lease record has that address", b, pool[b])
		}
	}
	for _, l := range recs {
		if o := poolOffset(l.IP); o >= 0 && !bits[uint64(o)] {
			add("bitset:lease-without-bit", "lease [%s] lies in the pool but bit %d of the pool bitset is clear", leaseStr(l, now), o)
		}
	}
	return vs
}

// checkGrant checks an address handed to client c in an OFFER or ACK against
// the reference model as it was before the operation.
func checkGrant(m *model, d *dhcpd.VerifC10Dump, c int, mac net.HardwareAddr, r result, acked bool, now time.Time, site string) (vs []viol) {
	add := func(class, format string, a ...any) {
		vs = append(vs, viol{class + ":" + site, fmt.Sprintf(format, a...) + "\nreference: " + m.key(now) + "\ntable: " + dumpStr(d, now)})
	}
	ip := r.YIAddr
	if rv, ok := m.resv[c]; ok {
		if rv.IP != ip {
			add("reply:reserved-client-given-other-address", "client %s has the reservation %s but was sent %s %s", mac, rv.IP, strings.ToUpper(r.Type), ip)
		}
	} else if poolOffset(ip) < 0 {
		add("reply:dynamic-address-outside-pool", "client %s (no reservation) was sent %s %s, which is outside the pool %s-%s", mac, strings.ToUpper(r.Type), ip, poolStart, poolEnd)
	}
	if who, how := m.holder(ip, now, c); who != 0 {
		add("reply:address-of-another-client", "client %s was sent %s %s, but that address is %s for client %s", mac, strings.ToUpper(r.Type), ip, how, macOf(who))
	}
	if acked {
		ok := false
		for _, l := range d.Leases {
			if l.MAC == mac.String() && l.IP == ip && (l.Static || l.Expiry.After(now)) {
				ok = true
			}
		}
		if !ok {
			add("reply:acked-lease-not-in-table", "client %s was sent ACK %s but the table has no unexpired lease of that address for it", mac, ip)
		}
	}
	return vs
}

func diffStr(a, b []string) string {
	ma, mb := map[string]int{}, map[string]int{}
	for _, x := range a {
		ma[x]++
	}
	for _, x := range b {
		mb[x]++
	}
	var only []string
	for x, n := range ma {
		if mb[x] != n {
			only = append(only, fmt.Sprintf("%dx in first, %dx in second: %s", n, mb[x], x))
		}
	}
	for x, n := range mb {
		if _, ok := ma[x]; !ok {
			only = append(only, fmt.Sprintf("0x in first, %dx in second: %s", n, x))
		}
	}
	sort.Strings(only)
	return strings.Join(only, "\n  ")
}

func eqStrs(a, b []string) bool {
	if len(a) != len(b) {
		return false
	}
	for i := range a {
		if a[i] != b[i] {
			return false
		}
	}
	return true
}

// execResult is what one execution reports.
type execResult struct {
	step  lib.Step
	viols []viol
}

type engine struct {
	c *lib.Ctx
}

// exec replays hist on a fresh server in a fresh directory under the virtual
// clock and checks the oracle on the last operation.
func (e *engine) exec(hist []op) (er execResult) {
	vtime.SetVirtual(epoch)
	dir, err := os.MkdirTemp(e.c.TmpDir, "c10-")
	if err != nil {
		panic(err)
	}
	defer os.RemoveAll(dir)
	off := len(hist) > 0 && hist[0].Kind == "off"
	srv, err := newServer(dir, off)
	if err != nil {
		panic(fmt.Sprintf("creating the server: %v", err))
	}
	in := &instance{dir: dir, srv: srv, off: off}
	m := newModel()
	hs := histString(hist)
	fail := func(vs ...viol) {
		for _, v := range vs {
			v.Desc += "\nhistory: " + hs
			er.viols = append(er.viols, v)
		}
	}
	stateKey := func() (key string, d dhcpd.VerifC10Dump, recs []dbRec, raw string, rerr error) {
		now := vtime.Now()
		d = in.srv.Dump()
		recs, raw, rerr = readDB(in.srv.DBPath())
		key = dumpStr(&d, now) + " || " + m.key(now) + " || " + diskKey(recs, raw, now)
		if in.off {
			key = "DHCP-OFF " + key
		}
		return
	}
	for i, o := range hist {
		if i < len(hist)-1 {
			r := in.apply(o)
			m.update(o, r, vtime.Now())
			continue
		}
		// Last operation: observe before, apply, check.
		site := o.Kind
		beforeKey, before, _, _, _ := stateKey()
		var ansBefore string
		if o.Kind == "restart" {
			ansBefore = in.answers(&before)
		}
		hadRecord := false
		for _, l := range before.Leases {
			if o.MAC != 0 && l.MAC == macOf(o.MAC).String() {
				hadRecord = true
			}
		}
		r := in.apply(o)
		now := vtime.Now()
		er.step.Outcome = o.Kind + ":" + r.label()
		if (o.Kind == "sadd" || o.Kind == "supd" || o.Kind == "srm") && r.Err != "" {
			site += "-rejected"
		}
		if r.NA {
			return er // not applicable: do not extend
		}
		if r.Panic != "" {
			fail(viol{"panic:" + site, "the code under test panicked: " + r.Panic})
			break
		}
		if o.Kind == "restart" && r.Err != "" {
			fail(viol{"restart:create-failed", "Create on the data directory failed: " + r.Err})
			break
		}
		after := in.srv.Dump()
		fail(checkTable(&after, now, site)...)
		// Replies.
		granted := r.YIAddr.IsValid() && (r.Type == "offer" || r.Type == "ack")
		if granted {
			e.c.Count("grants_checked", 1)
		}
		switch o.Kind {
		case "disc":
			if granted {
				fail(checkGrant(m, &after, o.MAC, macOf(o.MAC), r, false, now, site)...)
			}
			_, isResv := m.resv[o.MAC]
			if free, ok := m.freeAddr(now); ok && !hadRecord && !isResv && !(r.Type == "offer" && r.YIAddr.IsValid()) {
				fail(viol{"discover:no-offer-though-address-free:" + site, fmt.Sprintf(
					"DISCOVER from new client %s was answered with %q although pool address %s is neither leased nor reserved\nreference: %s\ntable: %s",
					macOf(o.MAC), r.label(), free, m.key(now), dumpStr(&after, now))})
			}
		case "req-sel", "req-reboot", "req-renew", "decline":
			if granted {
				fail(checkGrant(m, &after, o.MAC, macOf(o.MAC), r, r.Type == "ack", now, site)...)
			}
		}
		m.update(o, r, now)
		// Database on disk.
		recs, raw, rerr := readDB(in.srv.DBPath())
		restartDiffers := o.Kind == "restart" && !eqStrs(memRecs(&before), memRecs(&after))
		if restartDiffers {
			// Reported below; file != memory is then the same fact.
		} else if rerr != nil {
			fail(viol{"db:unreadable:" + site, fmt.Sprintf("leases.json cannot be read back: %v\nfile: %s", rerr, raw)})
		} else if dl, derr := diskRecs(recs); derr != nil {
			fail(viol{"db:unreadable:" + site, fmt.Sprintf("leases.json holds a bad record: %v\nfile: %s", derr, raw)})
		} else if ml := memRecs(&after); eqStrs(dl, ml) {
			if len(ml) > 0 {
				e.c.Count("db_equal_nonempty", 1)
			}
		} else {
			fail(viol{"db:differs-from-memory:" + site, fmt.Sprintf(
				"after the operation leases.json does not list exactly the leases in memory (first = memory, second = file):\n  %s\ntable: %s\nfile: %s",
				diffStr(ml, dl), dumpStr(&after, now), raw)})
		}
		// Restart restores the table and the answers.
		if o.Kind == "restart" {
			bl, al := memRecs(&before), memRecs(&after)
			if len(bl) > 0 {
				e.c.Count("restarts_with_leases_compared", 1)
			}
			if !eqStrs(bl, al) {
				// Classify: the only change is a generated hostname on dynamic
				// leases whose hostname was empty (offered but never acknowledged,
				// or emptied by a reservation taking the name).
				var norm []string
				for _, x := range before.Leases {
					h := x.Host
					if h == "" && !x.Static {
						h = hostGen(x.IP)
					}
					norm = append(norm, recKey(x.MAC, x.IP, h, x.Static, x.Expiry))
				}
				sort.Strings(norm)
				key := "restart:table-differs"
				if eqStrs(norm, al) {
					key = "restart:empty-hostname-regenerated"
				}
				fail(viol{key, fmt.Sprintf("the lease table after restart differs from the one before (first = before, second = after):\n  %s\nbefore: %s\nafter:  %s",
					diffStr(bl, al), dumpStr(&before, now), dumpStr(&after, now))})
			} else if ansAfter := in.answers(&after); ansAfter != ansBefore {
				fail(viol{"restart:answers-differ", fmt.Sprintf("same lease records, but the answers differ after restart:\nbefore: %s\nafter:  %s\ntable before: %s\ntable after:  %s",
					ansBefore, ansAfter, dumpStr(&before, now), dumpStr(&after, now))})
			}
		}
		if len(er.viols) > 0 {
			break
		}
		key, _, _, _, _ := stateKey()
		er.step.Key = key
		er.step.NonTrivial = key != beforeKey
		// Probe (the instance is thrown away afterwards): a DISCOVER from a
		// client never seen before is offered an address iff one is free.
		if in.off {
			break // no DHCP messages are served while DHCP is switched off
		}
		psite := "probe-after-" + o.Kind
		pr := in.apply(op{Kind: "probe", MAC: 0x99})
		if pr.Panic != "" {
			fail(viol{"panic:" + psite, "the code under test panicked on DISCOVER from a new client: " + pr.Panic})
			break
		}
		pd := in.srv.Dump()
		free, ok := m.freeAddr(now)
		offered := pr.Type == "offer" && pr.YIAddr.IsValid()
		if ok {
			e.c.Count("probe_expect_offer", 1)
		} else {
			e.c.Count("probe_expect_no_offer_pool_exhausted", 1)
		}
		if ok && !offered {
			fail(viol{"discover:no-offer-though-address-free:" + psite, fmt.Sprintf(
				"after the history a DISCOVER from new client %s was answered with %q although pool address %s is neither leased nor reserved\nreference: %s\ntable before the DISCOVER: %s",
				probeMAC, pr.label(), free, m.key(now), dumpStr(&after, now))})
		}
		if offered {
			fail(checkGrant(m, &pd, 0x99, probeMAC, pr, false, now, psite)...)
		}
		fail(checkTable(&pd, now, psite)...)
	}
	if len(hist) == 0 {
		er.step.Key, _, _, _, _ = stateKey()
	}
	if len(er.viols) > 0 {
		er.step.Key = ""
		er.step.VKey, er.step.VDesc = er.viols[0].Key, er.viols[0].Desc
	}
	return er
}

// ---- runner --------------------------------------------------------------------

func silence() {
	// renameio probes os.TempDir() on every write; keep that on tmpfs too.
	if d := os.Getenv("VERIF_C10_TMP"); d != "" {
		_ = os.Setenv("TMPDIR", d)
	}
	log.SetOutput(io.Discard)
	log.SetLevel(log.ERROR)
}

// gatewayAtPoolEdge: "dynamic addresses never coincide with the gateway" also
// for a configuration whose gateway is the first or the last address of the
// pool: either the configuration is refused, or no client is ever offered the
// gateway address while the whole pool is handed out.
func gatewayAtPoolEdge(c *lib.Ctx) {
	for _, gw := range []netip.Addr{poolStart, poolEnd} {
		dir, err := os.MkdirTemp(c.TmpDir, "c10gw-")
		if err != nil {
			c.EngineError(err.Error())
			return
		}
		c.Count("evals", 1)
		srv, err := dhcpd.VerifC10New(dhcpd.VerifC10Conf{DataDir: dir, Gateway: gw, Mask: mask, RangeStart: poolStart, RangeEnd: poolEnd, Self: selfIP, LeaseSec: uint32(leaseDur / time.Second)})
		if err != nil {
			c.Count("gateway_at_pool_edge_refused", 1)
			_ = os.RemoveAll(dir)
			continue
		}
		for m := 1; m <= 5; m++ {
			rc, resp, herr := srv.Handle(buildReq(op{Kind: "disc", MAC: m}))
			if herr != nil || rc < 0 || resp == nil {
				continue
			}
			y, _ := netip.AddrFromSlice(resp.YourIPAddr.To4())
			if resp.MessageType() == dhcpv4.MessageTypeOffer && y == gw {
				c.Violation("gateway-offered-to-client:gateway-at-pool-edge", fmt.Sprintf("configuration with gateway %s = %s of the pool %s-%s is accepted and client %d is offered the gateway address", gw, map[bool]string{true: "first address", false: "last address"}[gw == poolStart], poolStart, poolEnd, m),
					map[string]any{"check": "gateway-at-pool-edge", "gateway": gw.String()})
				break
			}
			if y.IsValid() {
				_, _, _ = srv.Handle(buildReq(op{Kind: "req-sel", MAC: m, IP: y.String()}))
			}
		}
		c.Count("gateway_at_pool_edge_accepted", 1)
		_ = os.RemoveAll(dir)
	}
}

func run(c *lib.Ctx) {
	_ = os.Setenv("VERIF_C10_TMP", c.TmpDir)
	silence()
	if c.ShardI == 0 {
		gatewayAtPoolEdge(c)
	}
	if pf := os.Getenv("VERIF_C10_PROF"); pf != "" && c.ShardI == 0 {
		f, _ := os.Create(pf)
		_ = pprof.StartCPUProfile(f)
		defer pprof.StopCPUProfile()
	}
	e := &engine{c: c}
	type search struct {
		tag   string
		rich  bool
		depth int
	}
	// quick: the small alphabet to depth 4.  thorough: the small alphabet to
	// depth 6, then the rich one (4 clients, more hostnames and addresses) to
	// depth 4.
	searches := []search{{"small", false, 4}, {"hostnames", false, 6}}
	if !c.Quick() {
		searches = []search{{"small", false, 6}, {"rich", true, 4}, {"hostnames", false, 7}}
	}
	for _, s := range searches {
		ops := alphabet(!s.rich)
		if s.tag == "hostnames" {
			// Two clients that ask for one and the same hostname, the clock and a
			// restart: deeper than the full alphabet can go.
			ops = nil
			for m := 1; m <= 2; m++ {
				ops = append(ops, op{Kind: "disc", MAC: m})
			}
			ops = append(ops, op{Kind: "advance"}, op{Kind: "restart"})
			for m := 1; m <= 2; m++ {
				for _, ip := range pool[:2] {
					ops = append(ops, op{Kind: "req-sel", MAC: m, IP: ip.String(), Host: "h1"})
				}
			}
		}
		c.Note(s.tag+"_alphabet", fmt.Sprintf("%d operations, depth bound %d; subnet %s gateway %s pool %s-%s (3 addresses) lease 1h", len(ops), s.depth, subnet, gateway, poolStart, poolEnd))
		x := &explorer{tag: s.tag, c: c, ops: ops, exec: e.exec, maxDepth: s.depth}
		if !x.run() {
			return
		}
	}
}

func replay(c *lib.Ctx, raw json.RawMessage) string {
	_ = os.Setenv("VERIF_C10_TMP", c.TmpDir)
	silence()
	if strings.Contains(string(raw), "gateway-at-pool-edge") {
		before := c.NumViolationKeys()
		gatewayAtPoolEdge(c)
		if c.NumViolationKeys() > before {
			return "violation reproduced: a client is offered the gateway address"
		}
		return ""
	}
	var hist []op
	if err := json.Unmarshal(raw, &hist); err != nil {
		return err.Error()
	}
	e := &engine{c: c}
	er := e.exec(hist)
	var l []string
	for _, v := range er.viols {
		l = append(l, v.Key+": "+v.Desc)
	}
	return strings.Join(l, "\n--\n")
}

func main() {
	lib.Main(&lib.Harness{
		Prop: "C10", Level: "model_checking",
		// The virtual clock is process-global: shard by process, one worker each.
		Shards: func(string) int { return 16 },
		Budget: func(tier string) time.Duration {
			if tier == "thorough" {
				return 18 * time.Minute
			}
			return 4 * time.Minute
		},
		Run: run, Replay: replay,
		Evidence: func(m *lib.Merged) map[string]any {
			return map[string]any{
				"states":                        m.Distinct["states"],
				"transitions":                   m.Counters["transitions"],
				"traces_validated_against_impl": m.Counters["transitions"],
				"evaluations":                   m.Counters["transitions"],
				"distinct_nontrivial":           m.Distinct["nontrivial"],
				"distinct_outcomes":             m.Distinct["outcomes"],
				"max_depth":                     m.Maxes["max_depth"],
				"offers_and_acks_checked":       m.Counters["grants_checked"],
				"probes_expecting_offer":        m.Counters["probe_expect_offer"],
				"probes_with_pool_exhausted":    m.Counters["probe_expect_no_offer_pool_exhausted"],
				"restarts_with_leases_compared": m.Counters["restarts_with_leases_compared"],
				"db_equal_memory_nonempty":      m.Counters["db_equal_nonempty"],
				"violating_transitions":         m.Counters["violating_transitions"],
				"rule":                          "level-synchronous BFS over histories of DISCOVER / REQUEST (selecting, init-reboot, renew) / DECLINE / RELEASE, static add/update/remove inside and outside a 3-address pool (also on the gateway and outside the subnet), +2h clock steps and restarts; quick: 3 clients, 92 operations, depth 4; thorough: the same alphabet to depth 6, then 4 clients / 3 hostnames / DISCOVER with requested address (205 operations) to depth 4. Every history is executed on the real dhcpd.Create -> v4Server.handle / AddStaticLease / UpdateStaticLease / RemoveStaticLease / onNotify -> dbStore / dbLoad in a fresh directory under the virtual clock. State = dump of the lease list (in order), both indexes, the pool bitset, leases.json and the reference model, expiry times relative to the clock; states are deduplicated globally (the shard processes exchange each level). After every transition: table invariants (one record per address and per client, dynamic in pool, none on the gateway, list = hostname index = IP index = bitset), every OFFER/ACK checked against the reference (reservation honoured, address not acknowledged-unexpired or reserved for another client, ACKed lease present and unexpired in the table), leases.json = memory each once, restart leaves the table and the HostByIP/IPByHost/MACByIP/Leases answers unchanged, and a DISCOVER from a never-seen client gets an OFFER iff the reference has a free pool address (checked on every reached state with an extra probe client). A violating state is reported and not extended. non-trivial = transition that changes the state key",
			}
		},
		Assumptions: []string{
			"a static reservation added by the administrator legitimately revokes dynamic leases of the same client or address (dnsmasq-like behaviour documented in AddStaticLease)",
			"a lease record that was only offered (never acknowledged) may be given to another client when the pool is exhausted",
			"restart = a new Create on the same data directory without an extra store (Stop stores nothing in the real code)",
			"ICMP probing is off (icmp_timeout_msec 0), so no blocklisted leases; one process-wide virtual clock, 2h steps against a 1h lease",
			"violating states are not extended, so behaviour behind a reported defect is explored only after that defect is fixed",
		},
	})
}
