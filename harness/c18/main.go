// C18 — blocked-services pause schedule follows local wall-clock time.
// Stateless bounded-exhaustive enumeration (DESIGN.md §4 C18).
package main

import (
	"encoding/json"
	"fmt"
	"os"
	"path/filepath"
	"reflect"
	"sort"
	"strings"
	"time"
	_ "time/tzdata"

	"github.com/AdguardTeam/AdGuardHome/internal/schedule"
	"github.com/AdguardTeam/AdGuardHome/internal/verifx/lib"
	"gopkg.in/yaml.v3"
)

type rng struct{ start, end time.Duration }

var ranges = []rng{
	{0, 0},
	{0, 24 * time.Hour},
	{0, time.Minute},
	{23*time.Hour + 59*time.Minute, 24 * time.Hour},
	{90 * time.Minute, 150 * time.Minute},
	{2 * time.Hour, 3 * time.Hour},
	{0, 30 * time.Minute},
	{9 * time.Hour, 17 * time.Hour},
	{23 * time.Hour, 24 * time.Hour},
}

var (
	farEast = time.FixedZone("E14", 14*3600)
	farWest = time.FixedZone("W12", -12*3600)
)

var dayKeys = []string{"sun", "mon", "tue", "wed", "thu", "fri", "sat"}

// mkWeekly builds a schedule through the JSON API form.  mask selects the
// weekdays that carry r; the others are empty.
func mkWeekly(zone string, r rng, mask [7]bool) (*schedule.Weekly, error) {
	m := map[string]any{"time_zone": zone}
	for i, k := range dayKeys {
		if mask[i] && (r != rng{}) {
			m[k] = map[string]any{"start": float64(r.start) / 1e6, "end": float64(r.end) / 1e6}
		}
	}
	data, _ := json.Marshal(m)
	w := &schedule.Weekly{}
	if err := json.Unmarshal(data, w); err != nil {
		return nil, err
	}
	return w, nil
}

func zoneNames() []string {
	var names []string
	root := "/usr/share/zoneinfo"
	_ = filepath.Walk(root, func(p string, info os.FileInfo, err error) error {
		if err != nil || info.IsDir() {
			return nil
		}
		rel, _ := filepath.Rel(root, p)
		if strings.HasPrefix(rel, "posix/") || strings.HasPrefix(rel, "right/") || !strings.ContainsAny(rel[:1], "ABCDEFGHIJKLMNOPQRSTUVWXYZ") {
			return nil
		}
		if strings.Contains(rel, ".") {
			return nil
		}
		if _, err = time.LoadLocation(rel); err == nil {
			names = append(names, rel)
		}
		return nil
	})
	if len(names) < 20 {
		names = []string{"UTC", "America/New_York", "America/Los_Angeles", "America/Sao_Paulo", "America/Santiago", "America/Havana",
			"America/St_Johns", "America/Asuncion", "Europe/London", "Europe/Berlin", "Europe/Lisbon", "Europe/Chisinau", "Atlantic/Azores",
			"Africa/Cairo", "Africa/Casablanca", "Asia/Tehran", "Asia/Kolkata", "Asia/Kathmandu", "Asia/Beirut", "Asia/Amman", "Asia/Gaza",
			"Australia/Lord_Howe", "Australia/Sydney", "Australia/Adelaide", "Pacific/Chatham", "Pacific/Auckland", "Pacific/Apia",
			"Pacific/Fiji", "Antarctica/Troll", "America/Scoresbysund", "America/Nuuk", "Asia/Pyongyang", "Pacific/Kiritimati"}
	}
	sort.Strings(names)
	return names
}

// transitions lists the instants in [from,to) at which the zone's offset or
// abbreviation changes.
func transitions(loc *time.Location, from, to time.Time) []time.Time {
	var out []time.Time
	t := from
	for t.Before(to) {
		_, end := t.In(loc).ZoneBounds()
		if end.IsZero() || !end.Before(to) {
			break
		}
		out = append(out, end)
		t = end
	}
	return out
}

// ref is the wall-clock reference of the property statement.
func ref(t time.Time, loc *time.Location, days *[7]rng) bool {
	lt := t.In(loc)
	h, m, s := lt.Clock()
	off := time.Duration(h)*time.Hour + time.Duration(m)*time.Minute + time.Duration(s)*time.Second + time.Duration(lt.Nanosecond())
	r := days[lt.Weekday()]
	return r.start <= off && off < r.end
}

type caseC struct {
	Zone  string   `json:"zone"`
	Start string   `json:"range_start"`
	End   string   `json:"range_end"`
	Mask  [7]bool  `json:"days"`
	T     string   `json:"instant"`
	Local string   `json:"local"`
	Got   bool     `json:"got"`
	Want  bool     `json:"want"`
	Ser   *serCase `json:"ser,omitempty"`
}

type serCase struct {
	Format string `json:"format"`
	Doc    string `json:"doc"`
	Want   string `json:"want"`
	Got    string `json:"got"`
}

func masks() [][7]bool {
	var ms [][7]bool
	all := [7]bool{true, true, true, true, true, true, true}
	ms = append(ms, all)
	for d := 0; d < 7; d++ {
		var only [7]bool
		only[d] = true
		ms = append(ms, only)
		but := all
		but[d] = false
		ms = append(ms, but)
	}
	return ms
}

func run(c *lib.Ctx) {
	from := time.Date(2023, 1, 1, 0, 0, 0, 0, time.UTC)
	to := time.Date(2027, 1, 1, 0, 0, 0, 0, time.UTC)
	if !c.Quick() {
		from = time.Date(2010, 1, 1, 0, 0, 0, 0, time.UTC)
		to = time.Date(2038, 1, 1, 0, 0, 0, 0, time.UTC)
	}
	names := zoneNames()
	// Deduplicate zones by their transition table inside the window.
	seen := map[string]bool{}
	type zone struct {
		name string
		loc  *time.Location
		tr   []time.Time
	}
	var zones []zone
	for _, n := range names {
		loc, err := time.LoadLocation(n)
		if err != nil {
			continue
		}
		tr := transitions(loc, from, to)
		var sb strings.Builder
		_, off := from.In(loc).Zone()
		fmt.Fprint(&sb, off)
		for _, t := range tr {
			_, off = t.In(loc).Zone()
			fmt.Fprint(&sb, "|", t.Unix(), ":", off)
		}
		if seen[sb.String()] {
			continue
		}
		seen[sb.String()] = true
		zones = append(zones, zone{n, loc, tr})
	}
	c.Note("zones", fmt.Sprintf("%d distinct transition tables out of %d zone names, window %s..%s", len(zones), len(names), from.Format("2006"), to.Format("2006")))
	ms := masks()
	for zi, z := range zones {
		if !c.Mine(zi) {
			continue
		}
		if c.Expired() {
			return
		}
		c.Count("zones", 1)
		// Instants: whole local days around each transition, every minute,
		// plus ±1ns around each range edge and midnight; plus ordinary days.
		var days []time.Time // any instant inside the day (UTC-based anchor)
		for _, tr := range z.tr {
			for d := -1; d <= 1; d++ {
				days = append(days, tr.Add(time.Duration(d)*24*time.Hour))
			}
		}
		for d := 0; d < 28; d++ {
			days = append(days, from.Add(time.Duration(d*13)*24*time.Hour+12*time.Hour))
		}
		// Build schedules once per (range, mask).
		type sch struct {
			w    *schedule.Weekly
			days [7]rng
			r    rng
			mask [7]bool
		}
		var schs []sch
		for _, r := range ranges {
			for _, m := range ms {
				w, err := mkWeekly(z.name, r, m)
				if err != nil {
					c.Violation("construct:"+z.name, fmt.Sprintf("valid schedule rejected: %v", err), caseC{Zone: z.name, Start: r.start.String(), End: r.end.String(), Mask: m})
					continue
				}
				if len(schs)%2 == 1 {
					// Every other schedule is used through a copy, as the
					// per-client schedules and the API answers are.
					w = w.Clone()
				}
				s := sch{w: w, r: r, mask: m}
				for i := range s.days {
					if m[i] {
						s.days[i] = r
					}
				}
				schs = append(schs, s)
				if r == (rng{}) {
					break // masks are irrelevant for the empty range
				}
			}
		}
		var instants []time.Time
		for _, anchor := range days {
			la := anchor.In(z.loc)
			y, mo, d := la.Date()
			// Every wall-clock minute of the local day: enumerate by absolute
			// time from 3h before local-midnight estimate to 27h after, keep
			// those falling on this local date (robust against 23/25h days).
			base := time.Date(y, mo, d, 12, 0, 0, 0, z.loc).Add(-15 * time.Hour)
			for i := 0; i < 30*60; i++ {
				t := base.Add(time.Duration(i) * time.Minute)
				ly, lmo, ld := t.In(z.loc).Date()
				if ly == y && lmo == mo && ld == d {
					instants = append(instants, t, t.Add(-time.Nanosecond), t.Add(time.Nanosecond))
				}
			}
		}
		trDay := map[string]bool{}
		for _, tr := range z.tr {
			trDay[tr.In(z.loc).Format("2006-01-02")] = true
			trDay[tr.Add(-time.Nanosecond).In(z.loc).Format("2006-01-02")] = true
		}
		bad := false
		for _, t := range instants {
			nontriv := trDay[t.In(z.loc).Format("2006-01-02")]
			tviews := [3]time.Time{t.UTC(), t.In(z.loc), t.In(farEast)}
			if !nontriv {
				tviews[2] = t.In(farWest)
			}
			for si := range schs {
				s := &schs[si]
				vi := si % 3
				// The instant is presented in three different locations: the
				// verdict must only depend on the instant.
				tv := tviews[vi]
				got := s.w.Contains(tv)
				want := ref(t, z.loc, &s.days)
				c.Count("evals", 1)
				if nontriv {
					c.Count("evals_on_transition_days", 1)
				}
				if got != want && !bad {
					bad = true
					cs := caseC{Zone: z.name, Start: s.r.start.String(), End: s.r.end.String(), Mask: s.mask,
						T: t.UTC().Format(time.RFC3339Nano), Local: t.In(z.loc).Format("Mon 2006-01-02 15:04:05.999999999 -0700 MST"), Got: got, Want: want}
					c.Violation("contains:"+z.name, fmt.Sprintf("Contains(%s = local %s) = %v, wall-clock reference says %v for range [%s,%s)", cs.T, cs.Local, got, want, cs.Start, cs.End), cs)
				}
			}
		}
		c.Distinct("nontrivial", z.name)
		for _, tr := range z.tr {
			c.Distinct("transition_days", z.name+tr.String())
		}
		if zi < 2 && len(instants) > 0 {
			t := instants[len(instants)/2]
			c.Sample(map[string]any{"zone": z.name, "instant": t.UTC().Format(time.RFC3339Nano), "local": t.In(z.loc).String(), "schedules": len(schs), "instants_in_zone": len(instants)})
		}
	}
	if c.Mine(len(zones)) {
		serialisation(c)
	}
	phaseAPI(c)
	phaseClients(c)
}

// serialisation enumerates day ranges in JSON and YAML form.
func serialisation(c *lib.Ctx) {
	vals := []time.Duration{-time.Minute, 0, 30 * time.Second, time.Minute, 12 * time.Hour, 24 * time.Hour, 24*time.Hour + time.Minute, 25 * time.Hour, 90 * time.Second, time.Millisecond, 500 * time.Microsecond, 12*time.Hour + 500*time.Microsecond}
	zonesS := []string{"UTC", "America/New_York", "Asia/Kathmandu"}
	probe := time.Date(2024, 6, 5, 12, 0, 30, 0, time.UTC)
	for _, zn := range zonesS {
		for _, st := range vals {
			for _, en := range vals {
				wantOK := (st == 0 && en == 0) || (st >= 0 && en >= 0 && st < en && st < 24*time.Hour && en <= 24*time.Hour && st%time.Minute == 0 && en%time.Minute == 0)
				for di, dk := range dayKeys {
					if di != 0 && di != 3 && di != 6 {
						continue
					}
					// JSON form
					jdoc := fmt.Sprintf(`{"time_zone":%q,%q:{"start":%s,"end":%s}}`, zn, dk, jsonMS(st), jsonMS(en))
					wj := &schedule.Weekly{}
					errJ := json.Unmarshal([]byte(jdoc), wj)
					c.Count("evals", 1)
					c.Count("ser_docs", 1)
					c.Distinct("nontrivial", "ser:"+jdoc)
					if (errJ == nil) != wantOK {
						c.Violation(fmt.Sprintf("ser-json-accept:%s,%s", st, en), fmt.Sprintf("JSON %s: accepted=%v, statement requires accepted=%v (err=%v)", jdoc, errJ == nil, wantOK, errJ),
							caseC{Ser: &serCase{Format: "json", Doc: jdoc, Want: fmt.Sprint(wantOK), Got: fmt.Sprint(errJ)}})
					}
					// YAML form
					ydoc := fmt.Sprintf("time_zone: %s\n%s:\n  start: %s\n  end: %s\n", zn, dk, st, en)
					// The configuration loader decodes into a default that holds
					// EmptyWeekly() (home/config.go); do the same.
					wy := schedule.EmptyWeekly()
					errY := yaml.Unmarshal([]byte(ydoc), wy)
					c.Count("evals", 1)
					c.Count("ser_docs", 1)
					if errY == nil && !emptyStaysEmpty(c, ydoc, probe) {
						return
					}
					if (errY == nil) != wantOK {
						c.Violation(fmt.Sprintf("ser-yaml-accept:%s,%s", st, en), fmt.Sprintf("YAML %q: accepted=%v, statement requires accepted=%v (err=%v)", ydoc, errY == nil, wantOK, errY),
							caseC{Ser: &serCase{Format: "yaml", Doc: ydoc, Want: fmt.Sprint(wantOK), Got: fmt.Sprint(errY)}})
					}
					if errJ != nil || errY != nil || !wantOK {
						continue
					}
					// Round trip JSON -> YAML -> JSON.
					j1, err1 := json.Marshal(wj)
					y1, err2 := yaml.Marshal(wj)
					w2 := &schedule.Weekly{}
					err3 := yaml.Unmarshal(y1, w2)
					var j2 []byte
					var err4 error
					if err3 == nil {
						j2, err4 = json.Marshal(w2)
					}
					if err1 != nil || err2 != nil || err3 != nil || err4 != nil || string(j1) != string(j2) {
						c.Violation(fmt.Sprintf("ser-roundtrip:%s,%s", st, en), fmt.Sprintf("round trip changed schedule: %s -> %s -> %s (errs %v %v %v %v)", j1, y1, j2, err1, err2, err3, err4),
							caseC{Ser: &serCase{Format: "roundtrip", Doc: jdoc, Want: string(j1), Got: string(j2)}})
						continue
					}
					w3 := &schedule.Weekly{}
					if err := json.Unmarshal(j1, w3); err != nil {
						c.Violation(fmt.Sprintf("ser-reparse:%s,%s", st, en), fmt.Sprintf("own JSON output rejected: %s: %v", j1, err), caseC{Ser: &serCase{Format: "json", Doc: string(j1)}})
						continue
					}
					for k := 0; k < 7*24*4; k++ {
						t := probe.Add(time.Duration(k) * 15 * time.Minute)
						a, b, d := wj.Contains(t), wy.Contains(t), w3.Contains(t)
						c.Count("evals", 1)
						if a != b || a != d {
							c.Violation(fmt.Sprintf("ser-agree:%s,%s", st, en), fmt.Sprintf("JSON, YAML and re-parsed forms of the same schedule disagree at %s: %v %v %v", t, a, b, d),
								caseC{Ser: &serCase{Format: "agree", Doc: jdoc}})
							break
						}
					}
				}
			}
		}
	}
	// Schedules whose seven days all differ (or where one day differs from
	// the six others): round trip through both formats must keep every day.
	for variant := 0; variant < 9; variant++ {
		m := map[string]any{"time_zone": "Europe/Berlin"}
		for di, dk := range dayKeys {
			var st, en time.Duration
			switch {
			case variant == 0:
				st, en = time.Duration(di)*time.Hour, time.Duration(di+1)*time.Hour+time.Duration(di)*time.Minute
			case variant == 1:
				st, en = time.Duration(6-di)*time.Hour+time.Minute, time.Duration(20-di)*time.Hour
			case di == variant-2:
				st, en = 3*time.Hour, 4*time.Hour
			default:
				st, en = 10*time.Hour, 22*time.Hour+30*time.Minute
			}
			m[dk] = map[string]any{"start": float64(st) / 1e6, "end": float64(en) / 1e6}
		}
		jdoc, _ := json.Marshal(m)
		c.Count("evals", 1)
		c.Count("ser_docs", 1)
		c.Distinct("nontrivial", "ser:"+string(jdoc))
		w := &schedule.Weekly{}
		if err := json.Unmarshal(jdoc, w); err != nil {
			c.Violation(fmt.Sprintf("ser-json-accept:week%d", variant), fmt.Sprintf("valid weekly schedule rejected: %v", err), caseC{Ser: &serCase{Format: "json", Doc: string(jdoc), Want: "true"}})
			continue
		}
		j1, _ := json.Marshal(w)
		y1, err2 := yaml.Marshal(w)
		w2 := &schedule.Weekly{}
		err3 := yaml.Unmarshal(y1, w2)
		var j2 []byte
		if err3 == nil {
			j2, _ = json.Marshal(w2)
		}
		var a, b any
		_ = json.Unmarshal(jdoc, &a)
		_ = json.Unmarshal(j1, &b)
		if err2 != nil || err3 != nil || string(j1) != string(j2) || !reflect.DeepEqual(a, b) {
			c.Violation(fmt.Sprintf("ser-roundtrip:week%d", variant), fmt.Sprintf("round trip changed a seven-day schedule:\n in  %s\n json %s\n yaml %s\n json %s (errs %v %v)", jdoc, j1, y1, j2, err2, err3),
				caseC{Ser: &serCase{Format: "roundtrip7", Doc: string(jdoc), Want: string(j1), Got: string(j2)}})
		}
	}
	// Unknown time zone and malformed documents must be rejected, not panic.
	for _, doc := range []string{`{"time_zone":"Nowhere/City"}`, `{"time_zone":"UTC","mon":{"start":"x","end":1}}`, `{"time_zone":"UTC","mon":null}`, `{"time_zone":"UTC","mon":{}}`, `[]`, `null`} {
		func() {
			defer func() {
				if r := recover(); r != nil {
					c.Violation("ser-panic:"+doc, fmt.Sprintf("panic on %s: %v", doc, r), caseC{Ser: &serCase{Format: "json", Doc: doc}})
				}
			}()
			w := &schedule.Weekly{}
			_ = json.Unmarshal([]byte(doc), w)
			c.Count("evals", 1)
		}()
	}
}

// emptyStaysEmpty: "an empty range covers none": whatever has been decoded
// before, a schedule obtained from EmptyWeekly covers no instant.
func emptyStaysEmpty(c *lib.Ctx, doc string, probe time.Time) bool {
	e := schedule.EmptyWeekly()
	for k := 0; k < 7*24*4; k++ {
		t := probe.Add(time.Duration(k) * 15 * time.Minute)
		c.Count("evals", 1)
		if e.Contains(t) {
			c.Violation("empty-schedule-covers-an-instant", fmt.Sprintf("after the YAML document %q was decoded into a schedule obtained from EmptyWeekly(), a new EmptyWeekly() covers %s", doc, t),
				caseC{Ser: &serCase{Format: "empty-after-yaml", Doc: doc}})
			return false
		}
	}
	return true
}

func jsonMS(d time.Duration) string {
	b, _ := json.Marshal(float64(d) / 1e6)
	return string(b)
}

func replay(c *lib.Ctx, raw json.RawMessage) string {
	if msg, ok := replayAPI(c, raw); ok {
		return msg
	}
	if msg, ok := replayClients(c, raw); ok {
		return msg
	}
	var cs caseC
	if err := json.Unmarshal(raw, &cs); err != nil {
		return "bad case: " + err.Error()
	}
	if cs.Ser != nil {
		w := &schedule.Weekly{}
		var err error
		switch cs.Ser.Format {
		case "empty-after-yaml":
			if err = yaml.Unmarshal([]byte(cs.Ser.Doc), schedule.EmptyWeekly()); err != nil {
				return ""
			}
			e := schedule.EmptyWeekly()
			probe := time.Date(2024, 6, 5, 12, 0, 30, 0, time.UTC)
			for k := 0; k < 7*24*4; k++ {
				if t := probe.Add(time.Duration(k) * 15 * time.Minute); e.Contains(t) {
					return fmt.Sprintf("EmptyWeekly() covers %s after the document was decoded", t)
				}
			}
			return ""
		case "yaml":
			err = yaml.Unmarshal([]byte(cs.Ser.Doc), w)
		default:
			err = json.Unmarshal([]byte(cs.Ser.Doc), w)
		}
		if cs.Ser.Want == "true" || cs.Ser.Want == "false" {
			if fmt.Sprint(err == nil) != cs.Ser.Want {
				return fmt.Sprintf("accepted=%v want %s (%v)", err == nil, cs.Ser.Want, err)
			}
		}
		return ""
	}
	loc, err := time.LoadLocation(cs.Zone)
	if err != nil {
		return err.Error()
	}
	st, _ := time.ParseDuration(cs.Start)
	en, _ := time.ParseDuration(cs.End)
	w, err := mkWeekly(cs.Zone, rng{st, en}, cs.Mask)
	if err != nil {
		return err.Error()
	}
	t, _ := time.Parse(time.RFC3339Nano, cs.T)
	var days [7]rng
	for i := range days {
		if cs.Mask[i] {
			days[i] = rng{st, en}
		}
	}
	got, want := w.Contains(t), ref(t, loc, &days)
	if got != want {
		return fmt.Sprintf("Contains(%s local %s)=%v want %v", cs.T, t.In(loc), got, want)
	}
	if got = w.Clone().Contains(t); got != want {
		return fmt.Sprintf("on a copy of the schedule (Clone): Contains(%s local %s)=%v want %v", cs.T, t.In(loc), got, want)
	}
	return ""
}

func main() {
	lib.Main(&lib.Harness{
		Prop: "C18", Level: "exploration",
		Budget: func(tier string) time.Duration {
			if tier == "thorough" {
				return 20 * time.Minute
			}
			return 3 * time.Minute
		},
		Run: run, Replay: replay,
		Evidence: func(m *lib.Merged) map[string]any {
			return map[string]any{
				"evaluations":         m.Counters["evals"],
				"distinct_nontrivial": m.Distinct["nontrivial"],
				"rule": "every zone with a distinct transition table in the window x every local day before/of/after each transition at every whole minute and +-1ns x 9 day ranges x 15 weekday masks, plus 28 ordinary days; serialised ranges over 12x12 start/end values (incl. fractions of a millisecond) in JSON and YAML, each YAML document decoded into an EmptyWeekly() value after which a new EmptyWeekly() must cover nothing; every history of <=4 (thorough: <=6) calls of PUT blocked_services/update (with one of two schedules or none) and the deprecated POST blocked_services/set on a real filter, judged through GET blocked_services/get, the saved section and ApplyBlockedServices at three instants under the virtual clock; every history of <=3 (thorough: <=4) steps over a persistent client's own blocked services: POST clients/update with one of three identifier lists (one empty) and one of four schedules, and a restart (writer's clients section -> YAML -> start-up load), the first load being from a written section, judged through GET clients, the saved section (instants and the serialised schedule itself) and the services a request of the client gets at five instants. distinct_nontrivial = distinct zone tables exercised + distinct serialised documents; transition days counted separately",
				"zones":               m.Counters["zones"],
				"transition_days":     m.Distinct["transition_days"],
				"evals_on_transition_days": m.Counters["evals_on_transition_days"],
				"serialised_documents":     m.Counters["ser_docs"],
				"api_histories":            m.Counters["api_histories"],
				"client_histories":         m.Counters["client_histories"],
				"client_phase_max_shard_ms": m.Maxes["client_phase_ms"],
			}
		},
		Assumptions: []string{"Go's time package and the host tzdata define wall-clock time", "zone enumeration from /usr/share/zoneinfo (fallback: built-in list + time/tzdata)"},
	})
}
