package main

// Operation histories over a persistent client's own blocked services and
// pause schedule, with restarts: POST /control/clients/update (identifiers,
// possibly none, and a schedule) and "restart" (the clients.persistent section
// the configuration writer produces is encoded as YAML, decoded and loaded
// into a fresh clients container by the start-up code).  The first load is
// from a hand-written configuration section.  After every history: GET
// /control/clients, the section handed to the writer, and the services a
// request of this client gets at instants inside and outside the ranges must
// agree with the reference: the schedule and the identifiers last sent; a
// restart changes neither ("schedules survive JSON and YAML round trips
// unchanged"; the services are applied exactly when the wall-clock reference
// says the schedule does not cover the instant).

import (
	"bytes"
	"encoding/json"
	"fmt"
	"net/http"
	"net/http/httptest"
	"net/netip"
	"os"
	"path/filepath"
	"strings"
	"time"

	"github.com/AdguardTeam/AdGuardHome/internal/filtering"
	"github.com/AdguardTeam/AdGuardHome/internal/home"
	"github.com/AdguardTeam/AdGuardHome/internal/schedule"
	"github.com/AdguardTeam/AdGuardHome/internal/verifx/lib"
	vtime "github.com/AdguardTeam/AdGuardHome/verifx/vtime"
	"gopkg.in/yaml.v3"
)

type cliOp struct {
	Kind  string   `json:"cop"` // update | restart
	IDs   []string `json:"ids,omitempty"`
	Sched string   `json:"schedule,omitempty"` // name of a schedule of cliScheds
}

func (o cliOp) String() string {
	if o.Kind == "restart" {
		return "restart"
	}
	return "update(" + strings.Join(o.IDs, "+") + ";" + o.Sched + ")"
}

var allWeek = rng{0, 24 * time.Hour}

// Wednesday 2024-06-05 and Saturday 2024-06-08 (Berlin: UTC+2).
var cliScheds = map[string]apiSched{
	"none":          {"UTC", [7]rng{}},
	"utc-wed-10-14": apiScheds["utc-wed-10-14"],
	"ktm-wed-17-22": apiScheds["ktm-wed-17-22"],
	"ber-week-sat-from-10": {"Europe/Berlin", [7]rng{allWeek, allWeek, allWeek, allWeek, allWeek, allWeek,
		{10 * time.Hour, 24 * time.Hour}}},
}

var cliProbes = append(append([]time.Time{}, apiProbes...),
	time.Date(2024, 6, 8, 7, 0, 0, 0, time.UTC),
	time.Date(2024, 6, 8, 9, 0, 0, 0, time.UTC),
)

const cliStartDoc = `- name: kid
  ids:
  - 1.2.3.4
  use_global_settings: true
  use_global_blocked_services: false
  blocked_services:
    schedule:
      time_zone: UTC
      wed:
        start: 10h
        end: 14h
    ids:
    - youtube
`

func cliAlphabet() []cliOp {
	ops := []cliOp{{Kind: "restart"}}
	for _, ids := range [][]string{{}, {"youtube"}, {"facebook", "youtube"}} {
		for _, s := range []string{"ktm-wed-17-22", "ber-week-sat-from-10", "none", "utc-wed-10-14"} {
			ops = append(ops, cliOp{Kind: "update", IDs: ids, Sched: s})
		}
	}
	return ops
}

func cliText(h []cliOp) string {
	l := make([]string, len(h))
	for i, o := range h {
		l[i] = o.String()
	}
	return strings.Join(l, " ; ")
}

// canonSched is the JSON form of a schedule after one decoding, or of the
// reference schedule.
func canonSched(s apiSched) (string, error) {
	doc, _ := json.Marshal(s.json())
	w := &schedule.Weekly{}
	if err := json.Unmarshal(doc, w); err != nil {
		return "", err
	}
	out, err := json.Marshal(w)
	return string(out), err
}

// cliEnv is the filter the requests go through; the clients container in use
// changes at every restart.
type cliEnv struct {
	d   *filtering.DNSFilter
	cur *home.VerifClients
}

func newCliEnv(c *lib.Ctx) (*cliEnv, error) {
	e := &cliEnv{}
	if err := os.MkdirAll(filepath.Join(c.TmpDir, "cli"), 0o755); err != nil {
		return nil, err
	}
	d, err := filtering.New(&filtering.Config{
		DataDir: filepath.Join(c.TmpDir, "cli"), BlockingMode: filtering.BlockingModeDefault,
		// The global services (never paused) are replaced by the client's own.
		BlockedServices: &filtering.BlockedServices{Schedule: schedule.EmptyWeekly(), IDs: []string{"instagram"}},
		ApplyClientFiltering: func(id string, addr netip.Addr, setts *filtering.Settings) {
			e.cur.VerifC18ApplyClientFiltering(id, addr, setts)
		},
	}, nil)
	if err != nil {
		return nil, err
	}
	e.d = d
	return e, nil
}

func runCliHist(c *lib.Ctx, e *cliEnv, h []cliOp) (st lib.Step, engineErr string) {
	cur, err := home.VerifC18LoadClients([]byte(cliStartDoc))
	if err != nil {
		return st, "loading the start section: " + err.Error()
	}
	e.cur = cur
	defer func() { e.cur.VerifC18Close() }()
	call := func(name, method string, body any) (int, string) {
		data, _ := json.Marshal(body)
		r := httptest.NewRequest(method, "http://agh.test/control/clients/"+name, bytes.NewReader(data))
		r.Header.Set("Content-Type", "application/json")
		w := httptest.NewRecorder()
		e.cur.Handler(name)(w, r)
		return w.Code, w.Body.String()
	}
	fail := func(key, format string, a ...any) lib.Step {
		return lib.Step{VKey: "client:" + key, VDesc: fmt.Sprintf("persistent client with its own blocked services, after the history [load: youtube, pause utc-wed-10-14 ; %s]: ", cliText(h)) + fmt.Sprintf(format, a...)}
	}
	mIDs, mSched := []string{"youtube"}, cliScheds["utc-wed-10-14"]
	for i, o := range h {
		switch o.Kind {
		case "update":
			s := cliScheds[o.Sched]
			code, body := call("update", http.MethodPost, map[string]any{"name": "kid", "data": map[string]any{
				"name": "kid", "ids": []string{"1.2.3.4"}, "use_global_settings": true, "use_global_blocked_services": false,
				"blocked_services": o.IDs, "blocked_services_schedule": s.json(),
			}})
			if code != http.StatusOK {
				return st, fmt.Sprintf("%s: HTTP %d %s", cliText(h[:i+1]), code, body)
			}
			mIDs, mSched = o.IDs, s
		case "restart":
			doc, err := e.cur.VerifC18SavedClients()
			if err != nil {
				return fail("saved-unreadable", "the clients section cannot be encoded: %v", err), ""
			}
			next, err := home.VerifC18LoadClients(doc)
			if err != nil {
				return fail("restart-refused", "the section the writer produced is refused at start-up: %v\n%s", err, doc), ""
			}
			e.cur.VerifC18Close()
			e.cur = next
		}
	}
	wantCanon, err := canonSched(mSched)
	if err != nil {
		return st, "reference schedule: " + err.Error()
	}
	loc, _ := time.LoadLocation(mSched.zone)
	// 1. the API
	code, body := call("list", http.MethodGet, nil)
	var got struct {
		Clients []struct {
			Name     string           `json:"name"`
			Schedule *schedule.Weekly `json:"blocked_services_schedule"`
			IDs      []string         `json:"blocked_services"`
		} `json:"clients"`
	}
	if code != http.StatusOK || json.Unmarshal([]byte(body), &got) != nil || len(got.Clients) != 1 || got.Clients[0].Schedule == nil {
		return fail("get-unreadable", "GET clients: HTTP %d %s", code, body), ""
	}
	g := got.Clients[0]
	if fmt.Sprint(sortedCopy(g.IDs)) != fmt.Sprint(sortedCopy(mIDs)) {
		return fail("get:identifiers-differ", "the API reports the services %v, want %v", g.IDs, mIDs), ""
	}
	// 2. the section handed to the writer
	saved, err := e.cur.VerifC18SavedClients()
	var back []struct {
		Name string                     `yaml:"name"`
		BS   *filtering.BlockedServices `yaml:"blocked_services"`
	}
	if err != nil || yaml.Unmarshal(saved, &back) != nil || len(back) != 1 || back[0].BS == nil || back[0].BS.Schedule == nil {
		return fail("saved-unreadable", "the saved clients section does not decode (%v): %s", err, saved), ""
	}
	if fmt.Sprint(sortedCopy(back[0].BS.IDs)) != fmt.Sprint(sortedCopy(mIDs)) {
		return fail("saved:identifiers-differ", "the saved section holds the services %v, want %v", back[0].BS.IDs, mIDs), ""
	}
	// 3. at every probe instant
	key := ""
	for _, t := range cliProbes {
		want := ref(t, loc, &mSched.days)
		if gc := g.Schedule.Contains(t); gc != want {
			return fail("get:schedule-differs", "the schedule reported by the API covers %s: %v, the schedule in force must: %v (reported: %s)", t, gc, want, body), ""
		}
		if gc := back[0].BS.Schedule.Contains(t); gc != want {
			return fail("saved:schedule-differs", "the saved schedule covers %s: %v, the schedule in force must: %v (saved: %s)", t, gc, want, saved), ""
		}
		vtime.SetVirtual(t)
		setts := &filtering.Settings{}
		e.d.ApplyAdditionalFiltering(netip.MustParseAddr("1.2.3.4"), "", setts)
		var names []string
		for _, r := range setts.ServicesRules {
			names = append(names, r.Name)
		}
		wantNames := sortedCopy(mIDs)
		if want || len(wantNames) == 0 {
			wantNames = nil
		}
		if fmt.Sprint(sortedCopy(names)) != fmt.Sprint(wantNames) {
			return fail(fmt.Sprintf("request:services-applied-wrongly:pause-covers=%v", want), "a request of the client at %s gets the blocked services %v, want %v (pause covers the instant: %v)", t, names, wantNames, want), ""
		}
		key += fmt.Sprintf("%v%v|", want, wantNames)
		c.Count("evals", 3)
	}
	// 4. the serialised schedule itself (zone name and all seven ranges)
	if j, _ := json.Marshal(g.Schedule); string(j) != wantCanon {
		return fail("get:schedule-changed", "the API reports the schedule %s, the one in force is %s", j, wantCanon), ""
	}
	if j, _ := json.Marshal(back[0].BS.Schedule); string(j) != wantCanon {
		return fail("saved:schedule-changed", "the saved schedule is %s, the one in force is %s", j, wantCanon), ""
	}
	st.Key = key
	st.Outcome = key
	st.NonTrivial = len(h) > 1
	return st, ""
}

func cliDepth(c *lib.Ctx) int {
	if c.Quick() {
		return 3
	}
	return 4
}

func phaseClients(c *lib.Ctx) {
	filtering.InitModule()
	vtime.SetVirtual(cliProbes[0])
	defer vtime.SetVirtual(time.Time{})
	e, err := newCliEnv(c)
	if err != nil {
		c.EngineError("client phase: filtering.New: " + err.Error())
		return
	}
	defer e.d.Close()
	// One worker (process-wide clock); every history is kept.
	b := &lib.BFS[cliOp]{C: c, Ops: cliAlphabet(), MaxDepth: cliDepth(c), Workers: 1, Confirm: true,
		Exec: func(h []cliOp) lib.Step {
			st, eerr := runCliHist(c, e, h)
			c.Count("client_histories", 1)
			if eerr != "" {
				c.EngineError(eerr)
				return lib.Step{}
			}
			if st.VKey != "" {
				return st
			}
			st.Key = cliText(h) + "#" + st.Key
			return st
		}}
	t0 := time.Now()
	b.Run()
	c.Max("client_phase_ms", time.Since(t0).Milliseconds())
}

func replayClients(c *lib.Ctx, raw json.RawMessage) (string, bool) {
	var hs []cliOp
	if json.Unmarshal(raw, &hs) != nil || len(hs) == 0 || hs[0].Kind == "" {
		return "", false
	}
	filtering.InitModule()
	vtime.SetVirtual(cliProbes[0])
	defer vtime.SetVirtual(time.Time{})
	e, err := newCliEnv(c)
	if err != nil {
		return "engine: " + err.Error(), true
	}
	defer e.d.Close()
	st, eerr := runCliHist(c, e, hs)
	if eerr != "" {
		return "engine: " + eerr, true
	}
	if st.VKey != "" {
		return st.VKey + ": " + st.VDesc, true
	}
	return "", true
}
