package main

// Operation histories over the two administration endpoints that change the
// global blocked services — PUT /control/blocked_services/update (identifiers
// and schedule) and the deprecated POST /control/blocked_services/set
// (identifiers only) — on a real filtering.DNSFilter under the virtual clock.
// After every history: GET /control/blocked_services/get, the configuration
// handed to the writer, and ApplyBlockedServices at instants inside and outside
// the ranges must agree with the reference (the schedule last sent by an
// update, the identifiers last sent by either; the services are applied at an
// instant exactly when the wall-clock reference says the schedule does not
// cover it).

import (
	"bytes"
	"encoding/json"
	"fmt"
	"net/http"
	"net/http/httptest"
	"os"
	"path/filepath"
	"sort"
	"strings"
	"sync/atomic"
	"time"

	"github.com/AdguardTeam/AdGuardHome/internal/filtering"
	"github.com/AdguardTeam/AdGuardHome/internal/schedule"
	"github.com/AdguardTeam/AdGuardHome/internal/verifx/lib"
	vtime "github.com/AdguardTeam/AdGuardHome/verifx/vtime"
	"gopkg.in/yaml.v3"
)

type apiOp struct {
	Kind  string   `json:"op"` // update | set
	IDs   []string `json:"ids"`
	Sched string   `json:"schedule,omitempty"` // name of a schedule of apiScheds; "" = none sent
}

func (o apiOp) String() string {
	s := o.Kind + "(" + strings.Join(o.IDs, "+")
	if o.Kind == "update" {
		s += ";" + o.Sched
		if o.Sched == "" {
			s += "no schedule"
		}
	}
	return s + ")"
}

type apiSched struct {
	zone string
	days [7]rng
}

// Wednesday 2024-06-05; probes at 03:00, 12:00 and 16:00 UTC (Kathmandu: 08:45,
// 17:45, 21:45).
var apiScheds = map[string]apiSched{
	"utc-wed-10-14": {"UTC", [7]rng{3: {10 * time.Hour, 14 * time.Hour}}},
	"ktm-wed-17-22": {"Asia/Kathmandu", [7]rng{3: {17 * time.Hour, 22 * time.Hour}}},
}

var apiProbes = []time.Time{
	time.Date(2024, 6, 5, 3, 0, 0, 0, time.UTC),
	time.Date(2024, 6, 5, 12, 0, 0, 0, time.UTC),
	time.Date(2024, 6, 5, 16, 0, 0, 0, time.UTC),
}

func (s apiSched) json() map[string]any {
	m := map[string]any{"time_zone": s.zone}
	for i, r := range s.days {
		if r.end > 0 {
			m[dayKeys[i]] = map[string]any{"start": float64(r.start) / 1e6, "end": float64(r.end) / 1e6}
		}
	}
	return m
}

func apiAlphabet() []apiOp {
	return []apiOp{
		{Kind: "update", IDs: []string{"youtube"}, Sched: "utc-wed-10-14"},
		{Kind: "set", IDs: []string{"facebook"}},
		{Kind: "update", IDs: []string{"facebook", "youtube"}},
		{Kind: "set", IDs: []string{}},
		{Kind: "update", IDs: []string{"facebook"}, Sched: "ktm-wed-17-22"},
		{Kind: "set", IDs: []string{"youtube"}},
	}
}

type apiCase struct {
	Phase string  `json:"phase"`
	Hist  []apiOp `json:"history"`
	Text  string  `json:"history_text"`
}

var apiSeq atomic.Int64

func apiText(h []apiOp) string {
	l := make([]string, len(h))
	for i, o := range h {
		l[i] = o.String()
	}
	return strings.Join(l, " ; ")
}

func sortedCopy(l []string) []string {
	c := append([]string{}, l...)
	sort.Strings(c)
	return c
}

// runAPIHist executes h on a fresh filter and judges the state it reaches.
func runAPIHist(c *lib.Ctx, h []apiOp) (st lib.Step, engineErr string) {
	dir := filepath.Join(c.TmpDir, "api", fmt.Sprint(apiSeq.Add(1)))
	if err := os.MkdirAll(dir, 0o755); err != nil {
		return st, err.Error()
	}
	defer os.RemoveAll(dir)
	hs := map[string]http.HandlerFunc{}
	modified := 0
	// The starting configuration is the one a configuration file gives: a
	// schedule and one service.
	start := apiScheds["utc-wed-10-14"]
	sdoc, _ := json.Marshal(start.json())
	w0 := &schedule.Weekly{}
	if err := json.Unmarshal(sdoc, w0); err != nil {
		return st, "start schedule: " + err.Error()
	}
	d, err := filtering.New(&filtering.Config{
		DataDir: dir, BlockingMode: filtering.BlockingModeDefault,
		BlockedServices: &filtering.BlockedServices{Schedule: w0, IDs: []string{"youtube"}},
		ConfigModified:  func() { modified++ },
		HTTPRegister:    func(m, u string, f http.HandlerFunc) { hs[m+" "+u] = f },
	}, nil)
	if err != nil {
		return st, "filtering.New: " + err.Error()
	}
	defer d.Close()
	d.RegisterFilteringHandlers()
	call := func(method, url string, body any) (int, string) {
		f := hs[method+" "+url]
		if f == nil {
			return 0, "no handler for " + method + " " + url
		}
		data, _ := json.Marshal(body)
		r := httptest.NewRequest(method, "http://agh.test"+url, bytes.NewReader(data))
		r.Header.Set("Content-Type", "application/json")
		w := httptest.NewRecorder()
		f(w, r)
		return w.Code, w.Body.String()
	}
	mIDs, mSched := []string{"youtube"}, &start
	for i, o := range h {
		var code int
		var body string
		switch o.Kind {
		case "update":
			doc := map[string]any{"ids": o.IDs}
			if o.Sched != "" {
				s := apiScheds[o.Sched]
				doc["schedule"] = s.json()
				mSched = &s
			} else {
				mSched = nil
			}
			code, body = call(http.MethodPut, "/control/blocked_services/update", doc)
			mIDs = o.IDs
		case "set":
			code, body = call(http.MethodPost, "/control/blocked_services/set", o.IDs)
			mIDs = o.IDs
		}
		if code != http.StatusOK {
			return st, fmt.Sprintf("%s: HTTP %d %s", apiText(h[:i+1]), code, body)
		}
	}
	fail := func(key, format string, a ...any) lib.Step {
		return lib.Step{VKey: "api:" + key, VDesc: fmt.Sprintf("after the history [start: youtube, pause utc-wed-10-14 ; %s]: ", apiText(h)) + fmt.Sprintf(format, a...)}
	}
	covers := func(t time.Time) bool {
		if mSched == nil {
			return false
		}
		loc, _ := time.LoadLocation(mSched.zone)
		return ref(t, loc, &mSched.days)
	}
	// 1. the API reports the identifiers and the schedule
	code, body := call(http.MethodGet, "/control/blocked_services/get", nil)
	var got struct {
		Schedule *schedule.Weekly `json:"schedule"`
		IDs      []string         `json:"ids"`
	}
	if code != http.StatusOK || json.Unmarshal([]byte(body), &got) != nil || got.Schedule == nil {
		return fail("get-unreadable", "GET blocked_services/get: HTTP %d %s", code, body), ""
	}
	if fmt.Sprint(sortedCopy(got.IDs)) != fmt.Sprint(sortedCopy(mIDs)) {
		return fail("get:identifiers-differ", "the API reports the services %v, want %v", got.IDs, mIDs), ""
	}
	// 2. the configuration handed to the writer
	var conf filtering.Config
	d.WriteDiskConfig(&conf)
	y, yerr := yaml.Marshal(conf.BlockedServices)
	var back filtering.BlockedServices
	if yerr != nil || yaml.Unmarshal(y, &back) != nil || back.Schedule == nil {
		return fail("saved-unreadable", "the saved blocked_services section does not decode: %s", y), ""
	}
	if fmt.Sprint(sortedCopy(back.IDs)) != fmt.Sprint(sortedCopy(mIDs)) {
		return fail("saved:identifiers-differ", "the saved configuration holds the services %v, want %v", back.IDs, mIDs), ""
	}
	if len(h) > 0 && modified == 0 {
		return fail("not-saved", "no configuration save was requested"), ""
	}
	// 3. at every probe instant
	key := ""
	for _, t := range apiProbes {
		want := covers(t)
		if g := got.Schedule.Contains(t); g != want {
			return fail("get:schedule-differs", "the schedule reported by the API covers %s: %v, the schedule in force must: %v (reported: %s)", t, g, want, body), ""
		}
		if g := back.Schedule.Contains(t); g != want {
			return fail("saved:schedule-differs", "the saved schedule covers %s: %v, the schedule in force must: %v (saved: %s)", t, g, want, y), ""
		}
		vtime.SetVirtual(t)
		setts := &filtering.Settings{}
		d.ApplyBlockedServices(setts)
		var names []string
		for _, e := range setts.ServicesRules {
			names = append(names, e.Name)
		}
		wantNames := sortedCopy(mIDs)
		if want {
			wantNames = nil
		}
		if fmt.Sprint(sortedCopy(names)) != fmt.Sprint(wantNames) {
			return fail(fmt.Sprintf("request:services-applied-wrongly:pause-covers=%v", want), "a request at %s gets the blocked services %v, want %v (pause covers the instant: %v)", t, names, wantNames, want), ""
		}
		key += fmt.Sprintf("%v%v|", want, wantNames)
		c.Count("evals", 3)
	}
	st.Key = key
	st.Outcome = key
	st.NonTrivial = len(h) > 1
	return st, ""
}

func phaseAPI(c *lib.Ctx) {
	filtering.InitModule()
	vtime.SetVirtual(apiProbes[0])
	defer vtime.SetVirtual(time.Time{})
	depth := 4
	if !c.Quick() {
		depth = 6
	}
	// The clock is process-wide: one worker.  Every history is kept (the key
	// is the history): the handlers' hidden state is what is being tested.
	b := &lib.BFS[apiOp]{C: c, Ops: apiAlphabet(), MaxDepth: depth, Workers: 1, Confirm: true,
		Exec: func(h []apiOp) lib.Step {
			st, eerr := runAPIHist(c, h)
			c.Count("api_histories", 1)
			if eerr != "" {
				c.EngineError(eerr)
				return lib.Step{}
			}
			if st.VKey != "" {
				return st
			}
			st.Key = apiText(h) + "#" + st.Key
			return st
		}}
	b.Run()
}

func replayAPI(c *lib.Ctx, raw json.RawMessage) (string, bool) {
	var hs []apiOp
	if json.Unmarshal(raw, &hs) != nil || len(hs) == 0 || hs[0].Kind == "" {
		return "", false
	}
	filtering.InitModule()
	vtime.SetVirtual(apiProbes[0])
	defer vtime.SetVirtual(time.Time{})
	st, eerr := runAPIHist(c, hs)
	if eerr != "" {
		return "engine: " + eerr, true
	}
	if st.VKey != "" {
		return st.VKey + ": " + st.VDesc, true
	}
	return "", true
}
