package main

// Phase 2 of C16: attribution over request histories.  The ClientID is found
// by the pre-request hook and handed to the request handler through a cache
// keyed by the proxy's request number; "plain and DNSCrypt requests never
// carry a ClientID" and "never attributed to somebody else" therefore also
// depend on what earlier requests left behind.  Every sequence of requests
// (six protocols, two DNS message IDs) and server reconfigurations up to a
// depth runs on a fresh real server; request contexts are created by the
// server's current proxy exactly as its listeners create them.

import (
	"crypto/tls"
	"encoding/json"
	"errors"
	"fmt"
	"net/http"
	"net/netip"
	"net/url"
	"strings"
	"time"

	"github.com/AdguardTeam/AdGuardHome/internal/dnsforward"
	"github.com/AdguardTeam/AdGuardHome/internal/verifx/lib"
	"github.com/AdguardTeam/AdGuardHome/internal/verifx/srv"
	vtime "github.com/AdguardTeam/AdGuardHome/verifx/vtime"
	"github.com/AdguardTeam/dnsproxy/proxy"
	"github.com/miekg/dns"
)

type hop struct {
	Kind string `json:"op"` // request protocol, or "reconfigure"
	ID   string `json:"client_id,omitempty"`
	Msg  uint16 `json:"dns_message_id,omitempty"`
	// Old: the request arrives on a connection that was accepted before the
	// last reconfiguration and is still served by the previous proxy instance
	// (dnsproxy only closes its listeners on shutdown).
	Old bool `json:"on_connection_of_previous_proxy,omitempty"`
}

func (o hop) String() string {
	if o.Kind == "reconfigure" {
		return o.Kind
	}
	id := o.ID
	if id == "" {
		id = "-"
	}
	if o.Old {
		return fmt.Sprintf("old-connection:%s(%s,msg=%d)", o.Kind, id, o.Msg)
	}
	return fmt.Sprintf("%s(%s,msg=%d)", o.Kind, id, o.Msg)
}

// errNoOldProxy: an old-connection request before any reconfiguration is not
// in the alphabet.
var errNoOldProxy = errors.New("no previous proxy instance")

type histCase struct {
	Phase string `json:"phase"`
	Hist  []hop  `json:"history"`
	Text  string `json:"history_text"`
}

const histHost = "dns.example"

// longID is a ClientID of the maximum label length.
var longID = "c" + strings.Repeat("0", 62)

func histAlphabet(quick bool) []hop {
	ops := []hop{
		{Kind: "udp", Msg: 7},
		{Kind: "tls", ID: "alice", Msg: 7},
		{Kind: "reconfigure"},
		{Kind: "https", ID: "bob", Msg: 7},
		{Kind: "tcp", Msg: 8},
		{Kind: "dnscrypt", Msg: 7},
		{Kind: "tls", Msg: 8},
		{Kind: "quic", ID: longID, Msg: 8},
		{Kind: "tls", ID: "dave", Msg: 7, Old: true},
	}
	if !quick {
		ops = append(ops, hop{Kind: "udp", Msg: 8}, hop{Kind: "https", Msg: 7}, hop{Kind: "tls", ID: "bob", Msg: 8})
	}
	return ops
}

type histEnv struct {
	a   *srv.Assembly
	log *srv.RecLog
	// old is the proxy instance replaced by the last reconfiguration.
	old *proxy.Proxy
}

func newHistEnv() (*histEnv, error) {
	ql := &srv.RecLog{}
	a, err := srv.Build(&srv.Spec{
		ProtectionEnabled: true, FilteringEnabled: true, Mode: "default", BlockedTTL: 10,
		BlockRules: []string{"||blocked.example^"},
		QueryLog:   ql, Stats: &srv.RecStats{},
		Conf: func(c *dnsforward.ServerConfig) {
			c.TLSConf = &dnsforward.TLSConfig{ServerName: histHost}
		},
	})
	if err != nil {
		return nil, err
	}
	return &histEnv{a: a, log: ql}, nil
}

// do performs o and returns the ClientID the request was processed under
// ("" = none) or an error text.
func (e *histEnv) do(o hop) (got string, applicable bool, err error) {
	if o.Kind == "reconfigure" {
		e.old = e.a.Server.VerifProxy()
		if err = e.a.Server.Reconfigure(nil); err != nil {
			return "", true, fmt.Errorf("reconfigure: %w", err)
		}
		e.a.Server.VerifSetUpstream(e.a.Upstream)
		return "", false, nil
	}
	var p proxy.Proto
	for _, x := range protos {
		if string(x) == o.Kind {
			p = x
		}
	}
	req := &dns.Msg{MsgHdr: dns.MsgHdr{Id: o.Msg, RecursionDesired: true}, Question: []dns.Question{{Name: "blocked.example.", Qtype: dns.TypeA, Qclass: dns.ClassINET}}}
	via := e.a.Server.VerifProxy()
	if o.Old {
		if e.old == nil {
			return "", false, errNoOldProxy
		}
		via = e.old
	}
	pctx := via.VerifNewDNSContext(p, req, netip.MustParseAddrPort("192.0.2.7:5353"))
	name := histHost
	if o.ID != "" && p != proxy.ProtoHTTPS {
		name = o.ID + "." + histHost
	}
	switch p {
	case proxy.ProtoTLS:
		pctx.Conn = dnsforward.VerifTLSConn{ServerName: name}
	case proxy.ProtoQUIC:
		pctx.QUICConnection = dnsforward.VerifQUICConn{ServerName: name}
	case proxy.ProtoHTTPS:
		pa := "/dns-query"
		if o.ID != "" {
			pa += "/" + o.ID
		}
		pctx.HTTPRequest = &http.Request{URL: &url.URL{Path: pa}, TLS: &tls.ConnectionState{ServerName: name}}
	}
	e.log.Reset()
	beforeErr, herr := e.a.Server.VerifHandleVia(via, pctx)
	if beforeErr != nil || herr != nil {
		return "", true, fmt.Errorf("request refused: before=%v handler=%v", beforeErr, herr)
	}
	ents := e.log.Reset()
	if len(ents) != 1 {
		return "", true, fmt.Errorf("%d query-log records for one request", len(ents))
	}
	return ents[0].ClientID, true, nil
}

func histText(h []hop) string {
	l := make([]string, len(h))
	for i, o := range h {
		l[i] = o.String()
	}
	return strings.Join(l, " ; ")
}

// runHist executes a history on a fresh server and judges the last operation.
func runHist(h []hop) (st lib.Step, engineErr string) {
	e, err := newHistEnv()
	if err != nil {
		return st, "assembly: " + err.Error()
	}
	defer func() {
		// Reconfigure starts the listeners; Close alone would leak them.
		_ = e.a.Server.Stop()
		e.a.Close()
	}()
	var attrib []string
	for i, o := range h {
		got, isReq, derr := e.do(o)
		if errors.Is(derr, errNoOldProxy) {
			return lib.Step{}, "" // not applicable: do not extend
		}
		if derr != nil {
			return st, fmt.Sprintf("%s: %v", histText(h[:i+1]), derr)
		}
		if !isReq {
			attrib = append(attrib, "r")
			continue
		}
		attrib = append(attrib, got)
		if i == len(h)-1 {
			st.Outcome = o.Kind + ":" + got
			st.NonTrivial = o.ID != "" || i > 0
			if got != o.ID {
				what := "attributed-to-somebody-else"
				switch {
				case o.ID != "" && got == "":
					what = "attributed-to-nobody"
				case o.ID == "" && (o.Kind == "udp" || o.Kind == "tcp" || o.Kind == "dnscrypt"):
					what = "plain-request-carries-clientid"
				}
				st.VKey = "history:" + what + ":" + o.Kind
				st.VDesc = fmt.Sprintf("after the history [%s] the %s request (ClientID %q in the request) was processed and logged under ClientID %q", histText(h[:i]), o.Kind, o.ID, got)
			}
		}
	}
	// Nothing of the implementation's hidden state (the cache between hook and
	// handler, the proxy's counter) can be read back: every history is its own
	// state, the search is the plain enumeration of all sequences.
	st.Key = histText(h)
	return st, ""
}

func phaseHist(c *lib.Ctx) {
	// Reconfigure sleeps 100 ms to let descriptors close; under the virtual
	// clock the sleep returns at once (the listeners use fresh ephemeral ports).
	vtime.SetVirtual(time.Date(2025, 3, 1, 12, 0, 0, 0, time.UTC))
	defer vtime.SetVirtual(time.Time{})
	type pass struct {
		ops   []hop
		depth int
	}
	passes := []pass{{histAlphabet(true), 5}}
	if !c.Quick() {
		// the larger alphabet one level less deep, the smaller one one level deeper
		passes = []pass{{histAlphabet(false), 5}, {histAlphabet(true), 6}}
	}
	for _, p := range passes {
		b := &lib.BFS[hop]{C: c, Ops: p.ops, MaxDepth: p.depth, Workers: 12, Confirm: true,
			Exec: func(h []hop) lib.Step {
				if len(h) == 0 {
					return lib.Step{Key: "-"}
				}
				st, eerr := runHist(h)
				c.Count("evals", 1)
				c.Count("history_executions", 1)
				if eerr != "" {
					c.EngineError(eerr)
					return lib.Step{}
				}
				if st.VKey != "" {
					return lib.Step{VKey: st.VKey, VDesc: st.VDesc}
				}
				return st
			}}
		b.Run()
	}
}

// phaseMany: more ClientID-carrying requests than the hand-over cache holds
// (1024 entries): every one of them, and a plain request in between, is still
// attributed to what it carries itself.
func phaseMany(c *lib.Ctx) {
	if !c.Mine(5) {
		return
	}
	e, err := newHistEnv()
	if err != nil {
		c.EngineError("assembly: " + err.Error())
		return
	}
	defer func() { _ = e.a.Server.Stop(); e.a.Close() }()
	n := 2600
	for i := 0; i < n; i++ {
		o := hop{Kind: "tls", ID: fmt.Sprintf("c%04d", i), Msg: uint16(i)}
		if i%500 == 499 {
			o = hop{Kind: "udp", Msg: uint16(i)}
		}
		got, _, derr := e.do(o)
		c.Count("evals", 1)
		if derr != nil {
			c.EngineError(fmt.Sprintf("request %d of the long history: %v", i, derr))
			return
		}
		if got != o.ID {
			c.Violation("history:long:attributed-wrongly:"+o.Kind, fmt.Sprintf("request number %d of one server life (a %s request carrying ClientID %q) was processed and logged under ClientID %q", i+1, o.Kind, o.ID, got),
				histCase{Phase: "history-long", Text: fmt.Sprintf("%d requests", i+1)})
			return
		}
	}
	c.Count("long_history_requests", int64(n))
	c.Distinct("nontrivial", "long-history")
}

func replayHist(raw json.RawMessage) (string, bool) {
	var probe struct {
		Phase string `json:"phase"`
	}
	var hs []hop
	if json.Unmarshal(raw, &hs) != nil || len(hs) == 0 {
		var hc histCase
		if json.Unmarshal(raw, &hc) == nil && hc.Phase == "history-long" {
			return "replay the long history with: bin/check C16 quick", true
		}
		if json.Unmarshal(raw, &hc) != nil || hc.Phase != "history" {
			_ = probe
			return "", false
		}
		hs = hc.Hist
	}
	st, eerr := runHist(hs)
	if eerr != "" {
		return "engine: " + eerr, true
	}
	if st.VKey != "" {
		return st.VKey + ": " + st.VDesc, true
	}
	return "", true
}
