// C16 — ClientIDs come only from a well-formed DoH path or server-name label.
// Stateless bounded-exhaustive enumeration (DESIGN.md §4 C16).
package main

import (
	"crypto/tls"
	"encoding/json"
	"fmt"
	"net/http"
	"net/netip"
	"net/url"
	"path"
	"strings"
	"time"

	"github.com/AdguardTeam/AdGuardHome/internal/dnsforward"
	"github.com/AdguardTeam/AdGuardHome/internal/verifx/lib"
	"github.com/AdguardTeam/dnsproxy/proxy"
	"github.com/AdguardTeam/golibs/log"
	"github.com/miekg/dns"
)

type caseC struct {
	Proto    string `json:"proto"`
	Host     string `json:"configured_server_name"`
	Strict   bool   `json:"strict"`
	CliName  string `json:"client_server_name"`
	Path     string `json:"doh_path,omitempty"`
	HostHdr  string `json:"host_header,omitempty"`
	HTTPTLS  bool   `json:"http_tls_state,omitempty"`
	GotID    string `json:"got_id"`
	GotErr   string `json:"got_err"`
	Expected string `json:"expected,omitempty"`
}

var protos = []proxy.Proto{proxy.ProtoUDP, proxy.ProtoTCP, proxy.ProtoTLS, proxy.ProtoHTTPS, proxy.ProtoQUIC, proxy.ProtoDNSCrypt}

// validLabel is the reference for "valid host-name label" (RFC 1123 label).
func validLabel(l string) bool {
	if len(l) == 0 || len(l) > 63 {
		return false
	}
	for i := 0; i < len(l); i++ {
		ch := l[i]
		isAlnum := ch >= 'a' && ch <= 'z' || ch >= 'A' && ch <= 'Z' || ch >= '0' && ch <= '9'
		if isAlnum {
			continue
		}
		if ch == '-' && i != 0 && i != len(l)-1 {
			continue
		}
		return false
	}
	return true
}

func labels() []string {
	l63 := strings.Repeat("a", 63)
	return []string{"id", "ID", "Id-1", "a", "0", "x-y", "_id", "-id", "id-", "i_d", l63, l63 + "a", "ïd", "i d", "id*", "%41", "KKid"}
}

func cliNames(h string) []string {
	if h == "" {
		return []string{"", "id.dns.example", "dns.example"}
	}
	out := []string{"", h, strings.ToUpper(h), "a.b." + h, "dnsx.example", "x" + h, h + ".evil", "." + h, h + ".", "example"}
	for _, l := range labels() {
		out = append(out, l+"."+h, l+"."+strings.ToUpper(h), l+"."+h+".evil", l+".x."+h, l+"."+h+".")
	}
	out = append(out, "id.x"+h, "id.."+h, "id-"+h, "idx"+h, "id_"+h, "a.id-"+h)
	return out
}

func paths() []string {
	out := []string{"/dns-query", "/dns-query/", "/", "", "/other/id", "/dns-queryx/id", "/dns-queryid", "/dns-queryID/", "//dns-query1", "/x/../dns-queryid/.", "/dns-query-id", "/dns-query/../id", "/dns-query/./id", "//dns-query//id", "/dns-query/id/x", "/dns-query/id/x/..", "/x/../dns-query/id", "/DNS-QUERY/id", "/dns-query/id/../../dns-query/other"}
	for _, l := range labels() {
		out = append(out, "/dns-query/"+l, "/dns-query/"+l+"/")
	}
	return out
}

// nameShape classifies a client server name against the configured one
// without using the code's own helpers.
func nameShape(cli, h string) (kind, label string) {
	switch {
	case h == "":
		return "nohost", ""
	case cli == h:
		return "equal", ""
	case strings.HasSuffix(cli, "."+h):
		l := cli[:len(cli)-len(h)-1]
		if l != "" && !strings.Contains(l, ".") {
			return "label", l
		}
		return "deeper", ""
	case strings.HasSuffix(strings.ToLower(cli), "."+strings.ToLower(h)) || strings.EqualFold(cli, h):
		return "casediff", ""
	case cli == "":
		return "empty", ""
	default:
		return "outside", ""
	}
}

type env struct{ c *lib.Ctx }

func (e *env) check(cs caseC) {
	c := e.c
	c.Count("evals", 1)
	srv := dnsforward.VerifBareServer(cs.Host, cs.Strict)
	pctx := &proxy.DNSContext{Req: &dns.Msg{Question: []dns.Question{{Name: "example.org.", Qtype: dns.TypeA, Qclass: dns.ClassINET}}}, Addr: netip.MustParseAddrPort("1.2.3.4:5")}
	var proto proxy.Proto
	for _, p := range protos {
		if string(p) == cs.Proto {
			proto = p
		}
	}
	pctx.Proto = proto
	switch proto {
	case proxy.ProtoTLS:
		pctx.Conn = dnsforward.VerifTLSConn{ServerName: cs.CliName}
	case proxy.ProtoQUIC:
		pctx.QUICConnection = dnsforward.VerifQUICConn{ServerName: cs.CliName}
	case proxy.ProtoHTTPS:
		r := &http.Request{URL: &url.URL{Path: cs.Path}, Host: cs.HostHdr}
		if cs.HTTPTLS {
			r.TLS = &tls.ConnectionState{ServerName: cs.CliName}
		}
		pctx.HTTPRequest = r
	}
	var id string
	var err error
	func() {
		defer func() {
			if r := recover(); r != nil {
				err = fmt.Errorf("PANIC: %v", r)
				cs.GotErr = err.Error()
				c.Violation("panic:"+cs.Proto, fmt.Sprintf("ClientID extraction panics: %v on %s", r, jsonStr(cs)), cs)
			}
		}()
		id, err = srv.VerifClientID(pctx)
	}()
	if err != nil && strings.HasPrefix(err.Error(), "PANIC") {
		return
	}
	cs.GotID = id
	if err != nil {
		cs.GotErr = err.Error()
	}
	fail := func(key, exp string) {
		cs.Expected = exp
		c.Violation(key+":"+cs.Proto, fmt.Sprintf("%s\ncase: %s", exp, jsonStr(cs)), cs)
	}
	nontrivial := false
	// Effective client server name for HTTPS.
	cli := cs.CliName
	cliKnown := true
	if proto == proxy.ProtoHTTPS && !cs.HTTPTLS {
		cli = ""
		if cs.HostHdr != "" {
			hh := cs.HostHdr
			// Host header with optional port; only simple forms are enumerated.
			if i := strings.LastIndex(hh, ":"); i >= 0 && !strings.Contains(hh, "]") {
				hh = hh[:i]
			}
			if strings.ContainsAny(hh, "[] ") {
				cliKnown = false
			}
			cli = hh
		}
	}
	// S2: plain and DNSCrypt never carry a ClientID and never fail.
	if proto == proxy.ProtoUDP || proto == proxy.ProtoTCP || proto == proxy.ProtoDNSCrypt {
		if id != "" || err != nil {
			fail("plain-has-clientid-or-fails", fmt.Sprintf("plain/DNSCrypt request must carry no ClientID and must not fail: id=%q err=%v", id, err))
		}
		return
	}
	// Path part (HTTPS).
	pathID, pathInvalid, pathBad := "", false, false
	if proto == proxy.ProtoHTTPS {
		cl := path.Clean(cs.Path)
		switch {
		case cl == "/dns-query":
		case strings.HasPrefix(cl, "/dns-query/") && !strings.Contains(cl[len("/dns-query/"):], "/"):
			l := cl[len("/dns-query/"):]
			if validLabel(l) {
				pathID = strings.ToLower(l)
			} else {
				pathInvalid = true
			}
			nontrivial = true
		default:
			pathBad = true // not under /dns-query or extra segments
		}
	}
	kind, label := nameShape(cli, cs.Host)
	if kind == "label" {
		nontrivial = true
	}
	// S1: a non-empty ClientID only from a well-formed source, lower-cased.
	if id != "" {
		ok := false
		if pathID != "" && id == pathID {
			ok = true
		}
		if pathID == "" && !pathInvalid && !pathBad && cliKnown && kind == "label" && validLabel(label) && id == strings.ToLower(label) {
			ok = true
		}
		if pathID == "" && !pathInvalid && !pathBad && cliKnown && kind == "casediff" {
			// Case difference in the domain part: statement is silent; accept a
			// ClientID equal to the lower-cased first label if the rest equals
			// the configured name case-insensitively and the label is valid.
			lc, lh := strings.ToLower(cli), strings.ToLower(cs.Host)
			if strings.HasSuffix(lc, "."+lh) {
				l := cli[:len(cli)-len(lh)-1]
				if validLabel(l) && !strings.Contains(l, ".") && id == strings.ToLower(l) {
					ok = true
				}
			}
		}
		if !cliKnown {
			ok = ok || pathID == ""
		}
		if !ok {
			fail("clientid-from-malformed-source", fmt.Sprintf("ClientID %q was extracted although the input has no well-formed /dns-query/<id> path or <id>.<server name> label yielding it", id))
			return
		}
	}
	// S3: invalid label in the ClientID position fails the request.
	if pathInvalid && err == nil {
		fail("invalid-path-label-accepted", "DoH path carries an invalid label in the ClientID position; the request must fail")
		return
	}
	if pathBad && err == nil && id != "" {
		fail("bad-path-yields-id", "malformed DoH path yields a ClientID")
		return
	}
	if !pathInvalid && !pathBad && pathID == "" && cliKnown && kind == "label" && !validLabel(label) && err == nil {
		fail("invalid-sni-label-accepted", fmt.Sprintf("server name carries the invalid label %q in the ClientID position; the request must fail, got id=%q", label, id))
		return
	}
	// S4: strict check rejects names outside the configured domain.
	if !pathInvalid && !pathBad && pathID == "" && cs.Strict && cliKnown && kind == "outside" && err == nil {
		fail("strict-accepts-outside-name", fmt.Sprintf("strict server-name check on, name %q is outside %q, request not rejected", cli, cs.Host))
		return
	}
	// L1: the well-formed shapes yield the lower-cased label.
	if pathID != "" && (err != nil || id != pathID) {
		fail("wellformed-path-not-extracted", fmt.Sprintf("well-formed DoH path must yield ClientID %q: got id=%q err=%v", pathID, id, err))
		return
	}
	if !pathInvalid && !pathBad && pathID == "" && cliKnown && kind == "label" && validLabel(label) && (err != nil || id != strings.ToLower(label)) {
		fail("wellformed-sni-not-extracted", fmt.Sprintf("server name %q must yield ClientID %q: got id=%q err=%v", cli, strings.ToLower(label), id, err))
		return
	}
	if !pathInvalid && !pathBad && pathID == "" && cliKnown && (kind == "equal" || kind == "nohost") && (err != nil || id != "") {
		fail("plain-server-name-fails", fmt.Sprintf("server name equal to the configured one (or no configured name) must give no ClientID and no error: id=%q err=%v", id, err))
		return
	}
	if nontrivial {
		c.Distinct("nontrivial", jsonStr(caseC{Proto: cs.Proto, Host: cs.Host, Strict: cs.Strict, CliName: cs.CliName, Path: cs.Path, HostHdr: cs.HostHdr, HTTPTLS: cs.HTTPTLS}))
	}
	c.Distinct("outcomes", fmt.Sprintf("%s|id=%v|err=%v|%s|%v|%v", cs.Proto, id != "", err != nil, kind, pathID != "", pathInvalid))
}

func jsonStr(v any) string { b, _ := json.Marshal(v); return string(b) }

func run(c *lib.Ctx) {
	log.SetLevel(log.ERROR)
	e := &env{c}
	idx := 0
	hosts := []string{"", "dns.example", "a.dns.example"}
	for _, h := range hosts {
		for _, strict := range []bool{false, true} {
			for _, p := range protos {
				for _, cn := range cliNames(h) {
					if p != proxy.ProtoHTTPS {
						idx++
						if c.Mine(idx) {
							e.check(caseC{Proto: string(p), Host: h, Strict: strict, CliName: cn})
							if idx%977 == 0 {
								c.Sample(caseC{Proto: string(p), Host: h, Strict: strict, CliName: cn})
							}
						}
						continue
					}
					for _, pa := range paths() {
						// TLS state present: name from the TLS state, Host header ignored.
						idx++
						if c.Mine(idx) {
							// The header names a ClientID that must not be used.
							hdr := "hdrid.dns.example:443"
							if h != "" {
								hdr = "hdrid." + h + ":443"
							}
							e.check(caseC{Proto: string(p), Host: h, Strict: strict, CliName: cn, Path: pa, HTTPTLS: true, HostHdr: hdr})
						}
						// No TLS state: name from the Host header, with and without port.
						for _, port := range []string{"", ":443"} {
							idx++
							if c.Mine(idx) {
								e.check(caseC{Proto: string(p), Host: h, Strict: strict, CliName: "", Path: pa, HostHdr: hostHdr(cn, port)})
								if idx%977 == 0 {
									c.Sample(caseC{Proto: string(p), Host: h, Strict: strict, Path: pa, HostHdr: hostHdr(cn, port)})
								}
							}
						}
					}
				}
			}
		}
	}
	if c.Mine(0) {
		handleBefore(c)
	}
	phaseHist(c)
	phaseMany(c)
}

func hostHdr(name, port string) string {
	if name == "" {
		return ""
	}
	return name + port
}

// handleBefore checks the protocol dispatch at the pre-request hook: errors
// become SERVFAIL, never "no client".
func handleBefore(c *lib.Ctx) {
	srv := dnsforward.VerifBareServer("dns.example", true)
	for _, tc := range []struct {
		proto proxy.Proto
		cli   string
		path  string
	}{{proxy.ProtoTLS, "_bad.dns.example", ""}, {proxy.ProtoQUIC, "evil.example", ""}, {proxy.ProtoHTTPS, "dns.example", "/dns-query/_bad"}, {proxy.ProtoHTTPS, "dns.example", "/dns-query/a/b"}} {
		req := &dns.Msg{MsgHdr: dns.MsgHdr{Id: 77}, Question: []dns.Question{{Name: "example.org.", Qtype: dns.TypeA, Qclass: dns.ClassINET}}}
		pctx := &proxy.DNSContext{Req: req, Proto: tc.proto, Addr: netip.MustParseAddrPort("1.2.3.4:5")}
		switch tc.proto {
		case proxy.ProtoTLS:
			pctx.Conn = dnsforward.VerifTLSConn{ServerName: tc.cli}
		case proxy.ProtoQUIC:
			pctx.QUICConnection = dnsforward.VerifQUICConn{ServerName: tc.cli}
		case proxy.ProtoHTTPS:
			pctx.HTTPRequest = &http.Request{URL: &url.URL{Path: tc.path}, TLS: &tls.ConnectionState{ServerName: tc.cli}}
		}
		c.Count("evals", 1)
		var err error
		func() {
			defer func() {
				if r := recover(); r != nil {
					err = nil
					c.Violation("handlebefore-panic", fmt.Sprint(r), caseC{Proto: string(tc.proto), CliName: tc.cli, Path: tc.path})
				}
			}()
			err = srv.HandleBefore(nil, pctx)
		}()
		bre, ok := err.(*proxy.BeforeRequestError)
		if !ok || bre.Response == nil || bre.Response.Rcode != dns.RcodeServerFailure || bre.Response.Id != 77 {
			c.Violation("handlebefore-no-servfail:"+string(tc.proto), fmt.Sprintf("a failing ClientID check must be answered SERVFAIL by the pre-request hook: got %v", err), caseC{Proto: string(tc.proto), CliName: tc.cli, Path: tc.path, Host: "dns.example", Strict: true})
		}
	}
}

func replay(c *lib.Ctx, raw json.RawMessage) string {
	log.SetLevel(log.ERROR)
	if out, ok := replayHist(raw); ok {
		return out
	}
	var cs caseC
	if err := json.Unmarshal(raw, &cs); err != nil {
		return err.Error()
	}
	cs.GotID, cs.GotErr, cs.Expected = "", "", ""
	(&env{c}).check(cs)
	if c.NumViolationKeys() > 0 {
		return "violation reproduced: " + jsonStr(cs)
	}
	return ""
}

func main() {
	lib.Main(&lib.Harness{
		Prop: "C16", Level: "exploration",
		Shards: func(string) int { return 8 },
		Budget: func(tier string) time.Duration {
			if tier == "thorough" {
				return 20 * time.Minute
			}
			return 5 * time.Minute
		},
		Run: run, Replay: replay,
		Evidence: func(m *lib.Merged) map[string]any {
			return map[string]any{
				"evaluations":         m.Counters["evals"],
				"history_executions":  m.Counters["history_executions"],
				"states":              m.Distinct["states"],
				"transitions":         m.Counters["transitions"],
				"max_depth":           m.Maxes["max_depth"],
				"distinct_nontrivial": m.Distinct["nontrivial"],
				"distinct_outcomes":   m.Distinct["outcomes"],
				"rule":                "6 protocols x 3 configured server names x strict on/off x ~95 client server names generated from 17 labels (valid, upper case, underscore, leading/trailing hyphen, 63/64 chars, non-ASCII incl. Kelvin sign) in 5 positions + equal/sibling/look-alike/suffix/deeper/empty forms; for DoH additionally x 53 paths x (TLS state | Host header with/without port). non-trivial = inputs with something in the ClientID position (path segment after /dns-query or one label in front of the server name). Phase 2 (histories): every sequence up to depth 5 of 9 operations (thorough: depth 5 of 12 operations and depth 6 of the 9), one of them a request on a connection still served by the proxy instance of before the last reconfiguration — requests over udp/tcp/dnscrypt/tls/https/quic with and without a ClientID and with two DNS message IDs, and Server.Reconfigure — on a fresh real server (contexts created by the current proxy as its listeners do); after each request the ClientID it was processed and logged under must be the one its own server name / path carries",
			}
		},
		Assumptions: []string{"path.Clean defines path normalisation; RFC 1123 label syntax defines a valid label", "case differences in the domain part and the empty server name under strict checking are accepted either way (statement silent)"},
	})
}
