// C17 — local files are read as filter lists only when matching the configured
// safe patterns.  Stateless bounded-exhaustive enumeration (DESIGN.md §4 C17):
// pattern list x location spelling x entry point on a real filtering.DNSFilter
// over a temp tree of canary files; the process working directory is set to the
// safe directory so that relative spellings could really resolve.
package main

import (
	"bytes"
	"context"
	"encoding/json"
	"errors"
	"fmt"
	"io"
	"net"
	"net/http"
	"net/http/httptest"
	"os"
	"path/filepath"
	"regexp"
	"runtime"
	"sort"
	"strconv"
	"strings"
	"syscall"
	"time"

	"github.com/AdguardTeam/AdGuardHome/internal/filtering"
	"github.com/AdguardTeam/AdGuardHome/internal/verifx/lib"
	vtime "github.com/AdguardTeam/AdGuardHome/verifx/vtime"
	"github.com/AdguardTeam/golibs/log"
	"github.com/miekg/dns"
)

// ---------------------------------------------------------------------------
// the tree

// canaryFiles are the files of the tree, relative to its root; file i holds
// the single rule "||canary-<i+1>.test^".
var canaryFiles = []string{
	"safe/a.txt",      // 1
	"safe/b.txt",      // 2
	"safe/c.txt",      // 3
	"safe/ab.txt",     // 4
	"safe/sub/a.txt",  // 5
	"safe/sub/d.txt",  // 6
	"unsafe/a.txt",    // 7
	"unsafe/e.txt",    // 8
	"a.txt",           // 9
	"safe-evil/a.txt", // 10: directory name has the safe directory as a prefix
}

// otherTargets are non-file targets: a missing file and two directories.
var otherTargets = []string{"safe/zz.txt", "safe/sub", "unsafe"}

// cwdRel is the working directory of the process, relative to the root.
const cwdRel = "safe"

const rootVar = "$R"

// dataVar stands for the data directory of the instance under test.
const dataVar = "$D"

const baseURL = "http://127.0.0.1:1/base.txt"

type patList struct {
	Name string
	Pats []string // with $R
}

var patLists = []patList{
	{"empty", nil},
	{"exact", []string{"$R/safe/a.txt"}},
	{"dir-star", []string{"$R/safe/*"}},
	{"dir-qmark", []string{"$R/safe/?.txt"}},
	{"dir-class", []string{"$R/safe/[ab].txt"}},
	{"rel-glob", []string{"*/a.txt"}},
	{"two", []string{"$R/safe/sub/*", "$R/unsafe/e.txt"}},
	{"mid-star", []string{"$R/*/a.txt"}},
	{"dir-only", []string{"$R/safe"}},
	{"bare-star", []string{"*"}},
	{"dir-slash", []string{"$R/safe/"}},
	{"other-case", []string{"$R/SAFE/*", "$R/safe/A.TXT", "$R/Unsafe/e.txt"}},
	{"star-suffix", []string{"$R/safe/*b.txt"}},
	{"two-reversed", []string{"$R/unsafe/e.txt", "$R/safe/sub/*"}},
	// A pattern is a glob, not a shell word: characters that mean something to a
	// shell or to os.ExpandEnv stand for themselves (the variables are not set,
	// so an expansion would turn these into $R/safe/a.txt and $R/safe/*).
	{"dollar-literal", []string{"$R/${VC17X}safe/a.txt", "$R/safe$VC17Y/*"}},
}

// The *_stored entries are refreshes of a list that already has contents on
// disk (fetched earlier, e.g. from another address before the configuration
// was edited): the location must be checked again all the same.
// add_after_a adds the list $R/safe/a.txt first (accepted or refused by the
// patterns) and then the location, on the same instance: what one check has
// accepted must not widen what the next one accepts.
// set_url_toggle: the location is already in the configuration; the list is
// disabled and enabled again through set_url with the address unchanged.
var entries = []string{"add", "set_url", "set_url_2step", "refresh", "periodic", "refresh_stored", "periodic_stored", "add_after_a", "set_url_toggle"}

// ---------------------------------------------------------------------------
// location grammar

type locT struct {
	Loc    string // with the real root
	Class  string // which departures from the plain absolute spelling
	Target string // root-relative path the spelling aims at ("" = none)
	Devs   int
}

type mut struct {
	name string
	f    func(p string) (string, bool)
}

func sepPositions(p, root string, all bool) []int {
	var pos []int
	ri := strings.Index(p, root)
	if ri < 0 {
		ri = 0
	}
	for i := 0; i < len(p); i++ {
		if p[i] == '/' && (i == 0 || i >= ri+len(root)) {
			pos = append(pos, i)
		}
	}
	if all || len(pos) <= 2 {
		return pos
	}
	return []int{pos[0], pos[len(pos)-1]}
}

func segMuts(p, root string, all bool) (ms []mut) {
	for _, pos := range sepPositions(p, root, all) {
		pos := pos
		for _, ins := range []string{"/./", "//", "/x/../"} {
			ins := ins
			ms = append(ms, mut{fmt.Sprintf("S=%s@%d", ins, posLabel(p, pos)), func(q string) (string, bool) {
				return q[:pos] + ins + q[pos+1:], true
			}})
		}
	}
	return ms
}

// posLabel numbers a separator from the end of the path (0 = last one) so that
// labels do not depend on the temp directory name; the leading one is -1.
func posLabel(p string, pos int) int {
	if pos == 0 {
		return -1
	}
	return strings.Count(p[pos+1:], "/")
}

func sufMuts() []mut {
	var ms []mut
	for _, s := range []string{"/", "/.", "//", "/x/..", "?x=1"} {
		s := s
		ms = append(ms, mut{"X=" + s, func(q string) (string, bool) { return q + s, true }})
	}
	return ms
}

func encMuts(root string) []mut {
	tail := func(q string) (string, string, bool) {
		i := strings.Index(q, root)
		if i < 0 {
			return "", "", false
		}
		return q[:i+len(root)], q[i+len(root):], true
	}
	return []mut{
		{"E=lastsep%2F", func(q string) (string, bool) {
			h, t, ok := tail(q)
			i := strings.LastIndex(t, "/")
			if !ok || i < 0 {
				return "", false
			}
			return h + t[:i] + "%2F" + t[i+1:], true
		}},
		{"E=dots%2e", func(q string) (string, bool) {
			h, t, ok := tail(q)
			if !ok {
				return "", false
			}
			if strings.Contains(t, "..") {
				return h + strings.ReplaceAll(t, "..", "%2e%2e"), true
			}
			if strings.Contains(t, ".") {
				return h + strings.ReplaceAll(t, ".", "%2e"), true
			}
			return "", false
		}},
		{"E=firstletter", func(q string) (string, bool) {
			h, t, ok := tail(q)
			i := strings.LastIndex(t, "/")
			if !ok || i < 0 || i+1 >= len(t) {
				return "", false
			}
			return h + t[:i+1] + fmt.Sprintf("%%%02x", t[i+1]) + t[i+2:], true
		}},
	}
}

func preMuts(cwd string) []mut {
	rel := func(q string) (string, bool) {
		if strings.HasPrefix(q, cwd+"/") {
			return q[len(cwd)+1:], true
		}
		if !filepath.IsAbs(q) {
			return "", false
		}
		r, err := filepath.Rel(cwd, filepath.Clean(q))
		if err != nil {
			return "", false
		}
		return r, true
	}
	ms := []mut{
		{"P=relative", rel},
		{"P=./relative", func(q string) (string, bool) {
			r, ok := rel(q)
			return "./" + r, ok
		}},
	}
	for _, s := range []string{"file://", "FILE://", "file:", "file://localhost", "ftp://", "ftp://127.0.0.1", "unix://",
		"http://127.0.0.1:1", "https://127.0.0.1:1", "http://", " "} {
		s := s
		ms = append(ms, mut{"P=" + s, func(q string) (string, bool) { return s + q, true }})
	}
	return ms
}

// routes returns the absolute spellings that reach target F through other
// directories with dot-dot segments.
func routes(root, f string) (rs []mut) {
	rs = append(rs, mut{"", func(string) (string, bool) { return f, true }})
	for _, v := range []string{"safe", "safe/sub", "safe/a.txt", "unsafe", "safe-evil"} {
		vp := filepath.Join(root, v)
		r, err := filepath.Rel(vp, f)
		if err != nil || !strings.HasPrefix(r, "..") {
			continue
		}
		s := vp + "/" + r
		rs = append(rs, mut{"route=via:" + v, func(string) (string, bool) { return s, true }})
	}
	rs = append(rs, mut{"route=overshoot", func(string) (string, bool) { return "/../.." + f, true }})
	return rs
}

// genLocs streams the locations to emit (nothing is kept: every engine rebuild
// of the code under test forces a GC cycle, so the live heap is kept small).
func genLocs(root string, thorough bool, emit func(locT) bool) {
	cwd := filepath.Join(root, cwdRel)
	seen := map[uint64]struct{}{}
	stop := false
	add := func(loc, class, target string, devs int) {
		h := lib.Hash(loc)
		if _, ok := seen[h]; ok || stop {
			return
		}
		seen[h] = struct{}{}
		if !emit(locT{Loc: loc, Class: class, Target: target, Devs: devs}) {
			stop = true
		}
	}
	// stand-alone spellings
	for _, s := range []string{"", " ", "/", ".", "..", "file://", "file:///", root, cwd, "a.txt\x00", cwd + "/a.txt\x00", cwd + "/a.txt\x00/../../unsafe/a.txt",
		"~/a.txt", `\a.txt`, cwd + `/..\unsafe\a.txt`, `C:\a.txt`, "a.txt ", cwd + "/a.txt ",
		dataVar + "/userfilters/u.txt", dataVar + "/u.txt"} {
		add(s, "standalone", "", 0)
	}
	maxDev := 1
	if thorough {
		maxDev = 2
	}
	targets := append(append([]string{}, canaryFiles...), otherTargets...)
	id := mut{"", func(q string) (string, bool) { return q, true }}
	for _, t := range targets {
		f := filepath.Join(root, t)
		for _, rt := range routes(root, f) {
			p, _ := rt.f("")
			S := append([]mut{id}, segMuts(p, root, thorough)...)
			E := append([]mut{id}, encMuts(root)...)
			X := append([]mut{id}, sufMuts()...)
			P := append([]mut{id}, preMuts(cwd)...)
			for _, s := range S {
				for _, e := range E {
					for _, x := range X {
						for _, pm := range P {
							devs := 0
							labels := []string{}
							if rt.name != "" {
								labels = append(labels, rt.name)
							}
							for _, m := range []mut{s, e, x, pm} {
								if m.name != "" {
									devs++
									labels = append(labels, m.name)
								}
							}
							if devs > maxDev {
								continue
							}
							q, ok := p, true
							for _, m := range []mut{s, e, x, pm} {
								if q, ok = m.f(q); !ok {
									break
								}
							}
							if !ok {
								continue
							}
							cl := strings.Join(labels, ";")
							if cl == "" {
								cl = "plain"
							}
							add(q, cl, t, devs)
							if stop {
								return
							}
						}
					}
				}
			}
		}
	}
}

// ---------------------------------------------------------------------------
// case

type caseC struct {
	PatName string   `json:"pattern_list"`
	Pats    []string `json:"patterns"` // $R = tree root
	Loc     string   `json:"location"` // $R = tree root
	Entry   string   `json:"entry"`
	White   bool     `json:"allowlist"`
	Class   string   `json:"spelling_class"`
	Target  string   `json:"aimed_at,omitempty"`
	Cwd     string   `json:"cwd"`

	Allowed bool `json:"oracle_allowed"`
	named   int  // canary named by the cleaned location when it is allowed
}

type obsT struct {
	Panic    string
	Codes    []int
	Bodies   []string
	Lists    []filtering.VerifC17List
	Stored   map[string]string
	Canaries map[int][]string // canary number -> where it showed up
	Unknown  string           // content of unknown origin
	Requests int
}

func (o *obsT) String() string {
	ks := make([]int, 0, len(o.Canaries))
	for k := range o.Canaries {
		ks = append(ks, k)
	}
	sort.Ints(ks)
	var sb strings.Builder
	for _, k := range ks {
		name := "unknown file"
		if k >= 1 && k <= len(canaryFiles) {
			name = canaryFiles[k-1]
		}
		fmt.Fprintf(&sb, "canary-%d(%s) shows up in %s; ", k, name, strings.Join(o.Canaries[k], ","))
	}
	if o.Unknown != "" {
		sb.WriteString(o.Unknown + "; ")
	}
	if o.Panic != "" {
		sb.WriteString("PANIC: " + o.Panic + "; ")
	}
	fmt.Fprintf(&sb, "http=%v bodies=%q lists=%+v", o.Codes, o.Bodies, o.Lists)
	return sb.String()
}

var canaryRe = regexp.MustCompile(`canary-(\d+)\.test`)

var posRe = regexp.MustCompile(`@-?\d+`)

type env struct {
	c      *lib.Ctx
	root   string
	n      int
	client *http.Client
	reqs   int
}

type countingRT struct {
	e  *env
	rt http.RoundTripper
}

func (t countingRT) RoundTrip(r *http.Request) (*http.Response, error) {
	t.e.reqs++
	return t.rt.RoundTrip(r)
}

func newEnv(c *lib.Ctx) (e *env, err error) {
	log.SetLevel(log.ERROR)
	log.SetOutput(io.Discard)
	// Every engine rebuild forces a GC cycle (debug.FreeOSMemory in
	// initFiltering); with one P that cycle needs no cross-thread handshakes.
	runtime.GOMAXPROCS(1)
	vtime.SetVirtual(time.Date(2025, 3, 1, 12, 0, 0, 0, time.UTC))
	e = &env{c: c, root: filepath.Join(c.TmpDir, "t")}
	for i, f := range canaryFiles {
		p := filepath.Join(e.root, f)
		if err = os.MkdirAll(filepath.Dir(p), 0o755); err != nil {
			return nil, err
		}
		if err = os.WriteFile(p, []byte(canaryText(i+1)), 0o644); err != nil {
			return nil, err
		}
	}
	real, err := filepath.EvalSymlinks(e.root)
	if err != nil || real != e.root || filepath.Clean(e.root) != e.root || strings.ContainsAny(e.root, `*?[\%. `) {
		return nil, fmt.Errorf("temp root %q is not a clean symlink-free path without glob characters (real %q, %v)", e.root, real, err)
	}
	if err = os.Chdir(filepath.Join(e.root, cwdRel)); err != nil {
		return nil, err
	}
	// The real transport decides about schemes; only the dialer is cut.
	tr := &http.Transport{
		Proxy: nil,
		DialContext: func(context.Context, string, string) (net.Conn, error) {
			return nil, errors.New("verif: network is cut")
		},
	}
	e.client = &http.Client{Transport: countingRT{e, tr}, Timeout: 5 * time.Second}
	return e, nil
}

// storedBase is what a *_stored entry finds on disk: three rules, so that it
// cannot be mistaken for a canary file (one rule).
const (
	storedBase      = "||base.test^\n||base2.test^\n||base3.test^\n"
	storedBaseRules = 3
)

func canaryText(n int) string { return fmt.Sprintf("||canary-%d.test^\n", n) }

func (e *env) sub(s string) string { return strings.ReplaceAll(s, rootVar, e.root) }
func (e *env) unsub(s string) string {
	return strings.ReplaceAll(s, e.root, rootVar)
}

// allowed is the oracle: the trusted base is filepath.IsAbs / Clean / Match.
func allowed(pats []string, loc string) bool {
	if !filepath.IsAbs(loc) {
		return false
	}
	cl := filepath.Clean(loc)
	for _, p := range pats {
		if ok, err := filepath.Match(p, cl); err == nil && ok {
			return true
		}
	}
	return false
}

func post(h func(http.ResponseWriter, *http.Request), body any, o *obsT) {
	data, _ := json.Marshal(body)
	r := httptest.NewRequest(http.MethodPost, "http://agh.test/control/filtering/x", bytes.NewReader(data))
	r.Header.Set("Content-Type", "application/json")
	w := httptest.NewRecorder()
	h(w, r)
	o.Codes = append(o.Codes, w.Code)
	b := w.Body.String()
	if len(b) > 300 {
		b = b[:300]
	}
	o.Bodies = append(o.Bodies, b)
}

// exec runs one case on a fresh DNSFilter and collects every observation.
func (e *env) exec(cs *caseC) (o *obsT) {
	o = &obsT{Stored: map[string]string{}, Canaries: map[int][]string{}}
	e.n++
	dataDir := filepath.Join(e.c.TmpDir, "d", strconv.Itoa(e.n))
	fdir := filepath.Join(dataDir, "filters")
	if err := os.MkdirAll(fdir, 0o755); err != nil {
		e.c.EngineError(err.Error())
		return o
	}
	defer os.RemoveAll(dataDir)
	if err := os.Chdir(e.sub(cs.Cwd)); err != nil {
		e.c.EngineError(err.Error())
		return o
	}
	loc := e.sub(cs.Loc)
	if strings.Contains(loc, dataVar) {
		// A file inside the server's own data directory (no pattern names it).
		loc = strings.ReplaceAll(loc, dataVar, dataDir)
		_ = os.MkdirAll(filepath.Dir(loc), 0o755)
		_ = os.WriteFile(loc, []byte("||canary-1.test^\n"), 0o644)
	}
	pats := make([]string, len(cs.Pats))
	for i, p := range cs.Pats {
		pats[i] = e.sub(p)
	}
	conf := &filtering.Config{
		DataDir:                    dataDir,
		SafeFSPatterns:             pats,
		HTTPClient:                 e.client,
		ConfigModified:             func() {},
		FilteringEnabled:           true,
		ProtectionEnabled:          true,
		FiltersUpdateIntervalHours: 1,
	}
	var initial []filtering.FilterYAML
	switch cs.Entry {
	case "set_url", "set_url_2step":
		initial = []filtering.FilterYAML{{Enabled: true, URL: baseURL, Name: "base", Filter: filtering.Filter{ID: 1}}}
		_ = os.WriteFile(filepath.Join(fdir, "1.txt"), []byte("||base.test^\n"), 0o644)
	case "refresh", "periodic", "set_url_toggle":
		initial = []filtering.FilterYAML{{Enabled: true, URL: loc, Name: "hostile", Filter: filtering.Filter{ID: 1}}}
	case "refresh_stored", "periodic_stored":
		initial = []filtering.FilterYAML{{Enabled: true, URL: loc, Name: "hostile", Filter: filtering.Filter{ID: 1}}}
		_ = os.WriteFile(filepath.Join(fdir, "1.txt"), []byte(storedBase), 0o644)
		// Old enough for the scheduled refresh to be due (the interval is 1 h).
		old := vtime.Now().Add(-3 * time.Hour) // the code under test reads the virtual clock
		_ = os.Chtimes(filepath.Join(fdir, "1.txt"), old, old)
	}
	if cs.White {
		conf.WhitelistFilters = initial
	} else {
		conf.Filters = initial
	}
	reqs0 := e.reqs
	d, err := filtering.New(conf, nil)
	if err != nil {
		e.c.EngineError("filtering.New: " + err.Error())
		return o
	}
	defer d.Close()
	d.VerifC17Prepare()

	func() {
		defer func() {
			if r := recover(); r != nil {
				o.Panic = fmt.Sprint(r)
			}
		}()
		type data struct {
			Name    string `json:"name"`
			URL     string `json:"url"`
			Enabled bool   `json:"enabled"`
		}
		type setReq struct {
			Data      *data  `json:"data"`
			URL       string `json:"url"`
			Whitelist bool   `json:"whitelist"`
		}
		switch cs.Entry {
		case "add":
			post(d.VerifC17AddURL, map[string]any{"name": "hostile", "url": loc, "whitelist": cs.White}, o)
		case "add_after_a":
			var o0 obsT
			post(d.VerifC17AddURL, map[string]any{"name": "legit", "url": filepath.Join(e.root, canaryFiles[0]), "whitelist": cs.White}, &o0)
			post(d.VerifC17AddURL, map[string]any{"name": "hostile", "url": loc, "whitelist": cs.White}, o)
		case "set_url":
			post(d.VerifC17SetURL, setReq{Data: &data{"hostile", loc, true}, URL: baseURL, Whitelist: cs.White}, o)
		case "set_url_2step":
			post(d.VerifC17SetURL, setReq{Data: &data{"hostile", loc, false}, URL: baseURL, Whitelist: cs.White}, o)
			cur := baseURL
			for _, l := range d.VerifC17Lists() {
				if l.URL == loc {
					cur = loc
				}
			}
			post(d.VerifC17SetURL, setReq{Data: &data{"hostile", loc, true}, URL: cur, Whitelist: cs.White}, o)
		case "set_url_toggle":
			post(d.VerifC17SetURL, setReq{Data: &data{"hostile", loc, false}, URL: loc, Whitelist: cs.White}, o)
			post(d.VerifC17SetURL, setReq{Data: &data{"hostile", loc, true}, URL: loc, Whitelist: cs.White}, o)
		case "refresh", "refresh_stored":
			post(d.VerifC17Refresh, map[string]any{"whitelist": cs.White}, o)
		case "periodic", "periodic_stored":
			d.VerifC17Periodic()
		default:
			panic("harness: unknown entry " + cs.Entry)
		}
	}()
	if strings.HasPrefix(o.Panic, "harness:") {
		e.c.EngineError(o.Panic)
	}
	o.Requests = e.reqs - reqs0

	// Observation 1: HTTP bodies.
	for _, b := range o.Bodies {
		for _, m := range canaryRe.FindAllStringSubmatch(b, -1) {
			n, _ := strconv.Atoi(m[1])
			o.note(n, "http-body")
		}
	}
	// Observation 2: the registry.
	o.Lists = d.VerifC17Lists()
	for _, l := range o.Lists {
		if strings.HasSuffix(cs.Entry, "_stored") && l.RulesCount == storedBaseRules {
			continue // still the contents stored before
		}
		if l.URL == loc && l.RulesCount > 0 {
			o.Unknown = fmt.Sprintf("list %d with the location as URL has rules_count=%d", l.ID, l.RulesCount)
		}
	}
	// Observation 3: everything stored under DataDir/filters.
	if des, rerr := os.ReadDir(fdir); rerr == nil {
		for _, de := range des {
			data, _ := os.ReadFile(filepath.Join(fdir, de.Name()))
			for _, m := range canaryRe.FindAllStringSubmatch(string(data), -1) {
				n, _ := strconv.Atoi(m[1])
				o.note(n, "stored-file:"+de.Name())
			}
			if len(data) > 200 {
				data = data[:200]
			}
			o.Stored[de.Name()] = string(data)
		}
	}
	// Observation 4: verdicts after the engines are rebuilt from the registry
	// (skipped after a panic, which may have left a lock held and is a
	// violation by itself).
	if o.Panic != "" {
		return o
	}
	func() {
		defer func() {
			if r := recover(); r != nil && o.Panic == "" {
				o.Panic = fmt.Sprint("rebuilding engines: ", r)
			}
		}()
		d.EnableFilters(false)
		setts := &filtering.Settings{FilteringEnabled: true, ProtectionEnabled: true}
		for n := 1; n <= len(canaryFiles); n++ {
			res, cerr := d.CheckHost(fmt.Sprintf("canary-%d.test", n), dns.TypeA, setts)
			if cerr != nil {
				continue
			}
			for _, r := range res.Rules {
				if strings.Contains(r.Text, "canary-") {
					o.note(n, "verdict:"+res.Reason.String())
				}
			}
		}
	}()
	if cs.Entry == "add_after_a" && allowed(pats, filepath.Join(e.root, canaryFiles[0])) {
		// The first list was read legitimately.
		delete(o.Canaries, 1)
	}
	if len(o.Canaries) > 0 {
		o.Unknown = ""
	}
	return o
}

func (o *obsT) note(n int, where string) {
	if n < 1 || n > len(canaryFiles) {
		n = 0
	}
	for _, w := range o.Canaries[n] {
		if w == where {
			return
		}
	}
	o.Canaries[n] = append(o.Canaries[n], where)
}

func (o *obsT) evidenceKey() string {
	ks := make([]int, 0, len(o.Canaries))
	for k := range o.Canaries {
		ks = append(ks, k)
	}
	sort.Ints(ks)
	return fmt.Sprint(ks, o.Unknown != "", o.Panic != "")
}

// judge applies the oracle to one observation; it returns a violation key and
// description, or "".
func (e *env) judge(cs *caseC, o *obsT) (key, desc string) {
	loc := e.sub(cs.Loc)
	pats := make([]string, len(cs.Pats))
	for i, p := range cs.Pats {
		pats[i] = e.sub(p)
	}
	al := allowed(pats, loc)
	cs.Allowed = al
	want := 0
	cl := filepath.Clean(loc)
	for i, f := range canaryFiles {
		if al && filepath.Join(e.root, f) == cl {
			want = i + 1
		}
	}
	cs.named = want
	// The key names the entry point and the kinds of departure from the plain
	// spelling (without positions); registry and pattern list are in the case.
	site := cs.Entry + ":" + posRe.ReplaceAllString(cs.Class, "")
	if o.Panic != "" {
		return "panic:" + site, fmt.Sprintf("the entry point panics: %s", o.Panic)
	}
	if len(o.Canaries) == 0 && o.Unknown == "" {
		return "", ""
	}
	if !al {
		// Which files were read?
		allInside := len(o.Canaries) > 0
		for n := range o.Canaries {
			if n == 0 || !allowed(pats, filepath.Join(e.root, canaryFiles[n-1])) {
				allInside = false
			}
		}
		why := "the cleaned location matches no configured pattern"
		if !filepath.IsAbs(loc) {
			why = "the location is not an absolute path"
		}
		if len(pats) == 0 {
			why = "no safe patterns are configured"
		}
		if allInside {
			return "nonabsolute-spelling-reads-local-file:" + site, "a local file was read although " + why + " (the file that was read is itself inside the patterns, the spelling is not a clean absolute match)"
		}
		return "file-outside-patterns-read:" + site, "a local file OUTSIDE the safe patterns was read: " + why
	}
	for n := range o.Canaries {
		if n != want {
			return "other-file-than-named-read:" + site, fmt.Sprintf("the location is allowed and names %s (canary %d) but content of another file shows up", e.unsub(cl), want)
		}
	}
	return "", ""
}

func (e *env) check(cs *caseC) {
	c := e.c
	c.Count("evals", 1)
	o := e.exec(cs)
	key, desc := e.judge(cs, o)
	if key != "" {
		// confirm on a fresh instance
		o2 := e.exec(cs)
		if o2.evidenceKey() != o.evidenceKey() {
			c.EngineError(fmt.Sprintf("nondeterministic observation for %s: %s vs %s", jsonStr(cs), o, o2))
			return
		}
		c.Violation(key, fmt.Sprintf("%s\nobserved: %s\ncase: %s\n(%s = tree root; file number i of <root>/%v holds ||canary-<i>.test^; process cwd=<root>/%s)",
			desc, e.unsub(o.String()), jsonStr(cs), rootVar, canaryFiles, cwdRel), cs)
		return
	}
	read := len(o.Canaries) > 0
	isCanary := false
	for _, f := range canaryFiles {
		if f == cs.Target {
			isCanary = true
		}
	}
	switch {
	case read:
		c.Count("legitimate_reads", 1)
		c.Distinct("nontrivial", jsonStr(caseC{PatName: cs.PatName, Loc: cs.Loc, Entry: cs.Entry, White: cs.White}))
	case isCanary && !cs.Allowed:
		// A spelling aimed at an existing canary file that must be refused.
		c.Count("refused_spellings_of_existing_files", 1)
		c.Distinct("nontrivial", jsonStr(caseC{PatName: cs.PatName, Loc: cs.Loc, Entry: cs.Entry, White: cs.White}))
	case cs.Allowed && cs.named != 0:
		c.Count("allowed_but_not_read", 1)
		if c.Distinct("allowed_not_read_classes", cs.Entry+"|"+cs.Class) {
			c.Sample(map[string]any{"allowed_but_not_read": cs, "observed": e.unsub(o.String())})
		}
	}
	if o.Requests > 0 {
		c.Count("http_requests_attempted", int64(o.Requests))
	}
	code := 0
	if len(o.Codes) > 0 {
		code = o.Codes[len(o.Codes)-1]
	}
	c.Distinct("outcomes", fmt.Sprintf("%s|%v|allowed=%v|read=%v|code=%d|req=%v", cs.Entry, cs.White, cs.Allowed, read, code, o.Requests > 0))
	c.Distinct("classes", cs.Class)
}

func jsonStr(v any) string { b, _ := json.Marshal(v); return string(b) }

// fifoPass: "opens a local file only if ..." taken literally.  The location
// of a list already in the configuration is a named pipe outside the patterns;
// a refresh must not even open it.  Whether somebody holds the pipe open for
// reading is observable without reading it: opening it for writing without
// blocking succeeds exactly then.
func (e *env) fifoPass() {
	c := e.c
	fifo := filepath.Join(e.root, "unsafe", "pipe")
	if err := syscall.Mkfifo(fifo, 0o644); err != nil && !os.IsExist(err) {
		c.Note("fifo_pass", "skipped: "+err.Error())
		return
	}
	for _, white := range []bool{false, true} {
		for _, entry := range []string{"refresh", "periodic"} {
			e.n++
			dataDir := filepath.Join(c.TmpDir, "d", "fifo"+strconv.Itoa(e.n))
			if err := os.MkdirAll(filepath.Join(dataDir, "filters"), 0o755); err != nil {
				c.EngineError(err.Error())
				return
			}
			conf := &filtering.Config{DataDir: dataDir, SafeFSPatterns: []string{filepath.Join(e.root, "safe", "*")}, HTTPClient: e.client,
				ConfigModified: func() {}, FilteringEnabled: true, ProtectionEnabled: true, FiltersUpdateIntervalHours: 1}
			initial := []filtering.FilterYAML{{Enabled: true, URL: fifo, Name: "pipe", Filter: filtering.Filter{ID: 1}}}
			if white {
				conf.WhitelistFilters = initial
			} else {
				conf.Filters = initial
			}
			d, err := filtering.New(conf, nil)
			if err != nil {
				c.EngineError("filtering.New: " + err.Error())
				return
			}
			d.VerifC17Prepare()
			done := make(chan struct{})
			go func() {
				defer close(done)
				defer func() { _ = recover() }()
				if entry == "refresh" {
					var o obsT
					post(d.VerifC17Refresh, map[string]any{"whitelist": white}, &o)
				} else {
					d.VerifC17Periodic()
				}
			}()
			opened := false
			probe := func() {
				if f, err := os.OpenFile(fifo, os.O_WRONLY|syscall.O_NONBLOCK, 0); err == nil {
					opened = true
					_ = f.Close() // the reader sees the end of the file and goes on
				}
			}
			deadline := time.Now().Add(2 * time.Second)
		wait:
			for time.Now().Before(deadline) {
				select {
				case <-done:
					break wait
				default:
				}
				probe()
				if opened {
					break
				}
				time.Sleep(2 * time.Millisecond)
			}
			c.Count("evals", 1)
			c.Count("fifo_probes", 1)
			cs := caseC{PatName: "dir-star", Pats: []string{rootVar + "/safe/*"}, Loc: rootVar + "/unsafe/pipe", Entry: "fifo:" + entry, White: white, Class: "named-pipe", Cwd: rootVar + "/" + cwdRel}
			stuck := false
			select {
			case <-done:
			case <-time.After(2 * time.Minute):
				stuck = true
			}
			switch {
			case opened:
				c.Violation("file-outside-patterns-opened:"+entry, "the location of a configured list is a named pipe outside the safe patterns; during the "+entry+" refresh it was opened for reading (a writer could connect to it)", cs)
			case stuck:
				c.Violation("refresh-blocks-on-file-outside-patterns:"+entry, "the "+entry+" refresh of a list whose location is a named pipe outside the safe patterns does not return", cs)
			}
			if !stuck {
				d.Close()
			}
			_ = os.RemoveAll(dataDir)
		}
	}
	c.Distinct("nontrivial", "fifo")
}

func run(c *lib.Ctx) {
	e, err := newEnv(c)
	if err != nil {
		c.EngineError(err.Error())
		return
	}
	if c.ShardI == c.ShardN-1 {
		e.fifoPass()
	}
	nLocs := 0
	genLocs(e.root, !c.Quick(), func(locT) bool { nLocs++; return true })
	if c.ShardI == 0 {
		c.Note("locations", strconv.Itoa(nLocs))
		c.Note("cases_in_tier", strconv.Itoa(nLocs*len(patLists)*len(entries)*2))
		c.Note("bounds", fmt.Sprintf("departures from the plain absolute spelling per location <= %d (classes: segment insertion, percent-encoding, suffix, prefix/scheme; dot-dot routes are extra); segment insertions at %s",
			map[bool]int{true: 1, false: 2}[c.Quick()], map[bool]string{true: "the first and the last separator", false: "every separator inside the tree and the first"}[c.Quick()]))
	}
	idx, mine := 0, 0
	cwd := rootVar + "/" + cwdRel
	genLocs(e.root, !c.Quick(), func(l locT) bool {
		for _, pl := range patLists {
			for _, en := range entries {
				for _, white := range []bool{false, true} {
					idx++
					if !c.Mine(idx) {
						continue
					}
					if mine++; mine%64 == 0 && c.Expired() {
						return false
					}
					if en == "add_after_a" && (l.Target == canaryFiles[0] || strings.HasSuffix(filepath.Clean(l.Loc), "/"+canaryFiles[0])) {
						continue // the location is the first list itself
					}
					cs := caseC{PatName: pl.Name, Pats: pl.Pats, Loc: e.unsub(l.Loc), Entry: en, White: white, Class: l.Class, Target: l.Target, Cwd: cwd}
					e.check(&cs)
					if idx%9973 == 0 {
						c.Sample(cs)
					}
				}
			}
		}
		return true
	})
	// The tree must be untouched.
	for i, f := range canaryFiles {
		data, rerr := os.ReadFile(filepath.Join(e.root, f))
		if rerr != nil || string(data) != canaryText(i+1) {
			c.Violation("canary-file-modified", fmt.Sprintf("the local file %s was modified or removed by the code under test (%v)", f, rerr), caseC{Target: f})
		}
	}
}

func replay(c *lib.Ctx, raw json.RawMessage) string {
	var cs caseC
	if err := json.Unmarshal(raw, &cs); err != nil {
		return err.Error()
	}
	e, err := newEnv(c)
	if err != nil {
		return err.Error()
	}
	if cs.Entry == "" {
		return "case is not replayable (tree-integrity violation); re-run the check"
	}
	if strings.HasPrefix(cs.Entry, "fifo:") {
		before := c.NumViolationKeys()
		e.fifoPass()
		if c.NumViolationKeys() > before {
			return "violation reproduced: a named pipe outside the safe patterns is opened by the refresh"
		}
		return ""
	}
	o := e.exec(&cs)
	key, desc := e.judge(&cs, o)
	if key != "" {
		return fmt.Sprintf("%s: %s\nobserved: %s\ncase: %s", key, desc, e.unsub(o.String()), jsonStr(cs))
	}
	fmt.Printf("observed: %s\n", e.unsub(o.String()))
	return ""
}

func main() {
	lib.Main(&lib.Harness{
		Prop: "C17", Level: "exploration",
		// The working directory and the virtual clock are process-global:
		// shard by process, one sequential worker each.
		Shards: func(string) int { return 16 },
		Budget: func(t string) time.Duration {
			if t == "thorough" {
				return 18 * time.Minute
			}
			return 4 * time.Minute
		},
		Run: run, Replay: replay,
		Evidence: func(m *lib.Merged) map[string]any {
			return map[string]any{
				"evaluations":                         m.Counters["evals"],
				"distinct_nontrivial":                 m.Distinct["nontrivial"],
				"distinct_outcomes":                   m.Distinct["outcomes"],
				"distinct_spelling_classes":           m.Distinct["classes"],
				"legitimate_reads":                    m.Counters["legitimate_reads"],
				"refused_spellings_of_existing_files": m.Counters["refused_spellings_of_existing_files"],
				"allowed_but_not_read":                m.Counters["allowed_but_not_read"],
				"http_requests_attempted":             m.Counters["http_requests_attempted"],
				"pattern_lists":                       len(patLists),
				"entry_points":                        entries,
				"rule":                                "15 pattern lists (patterns with $NAME / ${NAME} that must be taken literally, empty, dir/*b.txt, an exact path followed by a glob of another directory, patterns differing from the tree only in letter case, exact, dir/*, dir/?.txt, dir/[ab].txt, */a.txt, two patterns, root/*/a.txt, directory itself, *, dir/) x locations x 9 entry points (set_url that disables and re-enables a list already in the configuration without changing its address, add_url, add_url after the list safe/a.txt has been added on the same instance, set_url, set_url disabled-then-enabled, forced refresh handler, periodic refresh tick — the last two with the location already in the configuration, each also with contents of the list already stored from an earlier fetch) x block/allow registry. Locations: 13 targets (10 canary files in safe dir, its sub-directory, unsafe dir, tree root, look-alike 'safe-evil' dir; a missing file; two directories) x dot-dot routes (direct, via safe/, safe/sub/, a FILE safe/a.txt/, unsafe/, safe-evil/, overshoot above /) x departures: segment insertion (/./, //, /x/../), percent-encoding (last separator, dots, first letter), suffix (/, /., //, /x/.., ?x=1), prefix (relative to cwd=safe dir, ./relative, file://, FILE://, file:, file://localhost, ftp://, ftp://host, unix://, http://closed-port, https://, http://, leading space) + 18 stand-alone spellings (empty, NUL bytes, backslashes, ~). non-trivial = case in which a canary file was legitimately read, or a spelling aimed at an existing canary file had to be refused",
			}
		},
		Assumptions: []string{
			"filepath.IsAbs/Clean/Match are the trusted reference for 'cleaned absolute path matches a pattern'",
			"symlink-free tree on tmpfs; the HTTP client is a real http.Transport whose dialer always fails (no network); content can only come from local files",
			"only-if direction is demanded: an allowed location that is not read is counted (allowed_but_not_read), not reported",
		},
	})
}
