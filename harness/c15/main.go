// C15 — a failed filter-list refresh changes nothing; a successful one stores a
// stable normal form (DESIGN.md §4 C15).
//
// Part 1 (fault sequences): BFS over refresh histories on a real
// filtering.DNSFilter whose HTTP client is a scripted transport; oracle per
// step against a model holding the stored bytes per list.
//
// Part 2 (parser inputs): every text of a few lines over a small colliding
// line alphabet through rulelist.Parser; oracle: the output is a fixed point.
package main

import (
	"encoding/json"
	"io"
	"log/slog"
	"runtime"
	"time"

	"github.com/AdguardTeam/AdGuardHome/internal/verifx/lib"
	"github.com/AdguardTeam/golibs/log"
)

func silence() {
	log.SetLevel(log.ERROR)
	log.SetOutput(io.Discard)
	slog.SetDefault(slog.New(slog.DiscardHandler))
}

func run(c *lib.Ctx) {
	silence()
	// One P: the harness is sequential (the virtual clock is process-global),
	// and the forced collections of initFiltering (debug.FreeOSMemory) are
	// several times cheaper without cross-thread stop-the-world hand-shakes.
	runtime.GOMAXPROCS(1)
	// The parser part is cheap; run it first so that a tight budget cuts the
	// sequence search, not a whole part.
	runParser(c)
	if c.Expired() {
		return
	}
	runSequences(c)
}

func replay(c *lib.Ctx, raw json.RawMessage) string {
	silence()
	trimmed := []byte(raw)
	for len(trimmed) > 0 && (trimmed[0] == ' ' || trimmed[0] == '\n') {
		trimmed = trimmed[1:]
	}
	if len(trimmed) > 0 && trimmed[0] == '[' {
		var hist []Op
		if err := json.Unmarshal(raw, &hist); err != nil {
			return err.Error()
		}
		st := (&seqEnv{c: c}).exec(hist)
		if st.VKey != "" {
			return st.VKey + ": " + st.VDesc
		}
		return ""
	}
	var pc parserCase
	if err := json.Unmarshal(raw, &pc); err != nil {
		return err.Error()
	}
	key, desc := checkText(c, &parserEnv{}, pc)
	if key != "" {
		return key + ": " + desc
	}
	return ""
}

func main() {
	lib.Main(&lib.Harness{
		Prop: "C15", Level: "fault_enumeration",
		Shards: func(string) int { return 16 },
		Budget: func(tier string) time.Duration {
			if tier == "thorough" {
				return 18 * time.Minute
			}
			return 4 * time.Minute
		},
		Run: run, Replay: replay,
		Evidence: func(m *lib.Merged) map[string]any {
			return map[string]any{
				"states":                        m.Distinct["states"],
				"transitions":                   m.Counters["transitions"],
				"traces_validated_against_impl": m.Counters["transitions"],
				"refresh_steps_executed":        m.Counters["steps_executed"],
				"parser_texts":                  m.Counters["parser_texts"],
				"parser_texts_accepted":         m.Counters["parser_accepted"],
				"parser_texts_rejected":         m.Counters["parser_rejected"],
				"evaluations":                   m.Counters["transitions"] + m.Counters["parser_texts"],
				"distinct_nontrivial":           m.Distinct["nontrivial"] + m.Distinct["nontrivial_parser"],
				"distinct_nontrivial_sequences": m.Distinct["nontrivial"],
				"distinct_nontrivial_texts":     m.Distinct["nontrivial_parser"],
				"distinct_outcomes":             m.Distinct["outcomes"],
				"distinct_parser_outcomes":      m.Distinct["parser_outcomes"],
				"max_depth":                     m.Maxes["max_depth"],
				"rule":                          "Part 1: BFS (root 'stored': the three lists already on disk, quick depth 3 / thorough depth 4; root 'fresh': nothing downloaded yet, quick depth 2 / thorough depth 4) over histories of {forced refresh of the block side x 16 answers, forced refresh of the allow side x 16 answers (both through the refresh API handler), scheduled refresh 25 h later and 1 h later x (block answer, allow answer) pairs (through periodicallyRefreshFilters; quick: 6x6 and 4x4 representative pairs, thorough: 14x14 and every pair with one of 4 representatives), change of the local list file to F0/F1/missing/a directory, set_url to an address whose download fails x 5 answers, switching the HTTP block list / the allow list off through the set_url handler, switching it on again through the set_url handler x answer (quick: 4 representatives, thorough: all 16; switching on downloads the list and is judged like any refresh, except that a rewrite of unchanged content is not held against it; a list that is off keeps its file, has no rules in force and is not requested), restart (keeps which lists are off)} on a real DNSFilter with one HTTP block list, one local-file block list and one HTTP allow list. Answers of the scripted list server: 200 L1, 200 L2, 200 same as before, 200 empty, connection error, 404, 500, 204, 206 (partial content), 200 with the body failing (io.ErrUnexpectedEOF) before the first byte / mid-line / at a line boundary / after the last line, 200 HTML page, 200 with NUL on line 1 / line 3. Histories are merged only when the dumped implementation state (list files, metadata incl. checksum and update-age class, verdicts of 13 probe names, stray files) and the model agree; after every step the stored bytes, the inode, rules_count of the status API and the CheckHost verdicts are compared with the model, and the stored file is re-parsed. non-trivial = a step in which a list that has a stored file gets a failing answer, or a list is replaced by new content. The block list L1 has a title line followed by a '##' line. Part 2: every text over 14 line kinds x {LF, CRLF, no final newline} through rulelist.Parser, plus texts with lines starting with '##', '#@#' or '!#' (comments by the first-byte rule, before and after a title line; quick <=4 lines over 9 kinds, thorough <=5 lines over 12 kinds) (quick: <=4 lines; thorough: <=6 lines over the 13 short kinds plus <=4 lines with a 70 KB line), plus texts of <=3 lines with lines at the scanner's length limit; non-trivial = accepted text with at least one rule whose normal form differs from the input",
			}
		},
		Assumptions: []string{
			"the reference normal form is: split at LF, drop one trailing CR, trim blanks/tabs, drop empty lines and lines starting with '#' or '!', join with LF; the checksum is CRC-32 (IEEE) over the rule lines as documented in rulelist.ParseResult",
			"file modification times of replaced list files are set to the virtual clock by the harness (rename stamps them with the kernel clock); they are only read by load() at start-up",
			"a scheduled refresh attempts a list iff its LastUpdated (read from the implementation before the step) is at least the interval old; whether HTTP lists were attempted is taken from the transport log",
			"body faults are modelled by an io.Reader that delivers the first k bytes and then returns io.ErrUnexpectedEOF, k in {0, mid-line, line boundary, all}",
			"update ages enter the state key as classes never/young/due; exact because steps advance the clock by 1 h or 25 h and depth x 1 h is below the 24 h interval",
			"switching a list off is not a refresh: its file must stay byte- and inode-identical, its rules leave force, its reported rule count and checksum are not constrained while it is off; switching it on with a failing download must leave file, count and verdicts as they were (off)",
			"after a successful refresh that replaced a list the new rules must be in force (demanded by the check's brief; the statement itself only says so for failed refreshes)",
		},
	})
}
