package main

import (
	"bytes"
	"encoding/json"
	"errors"
	"fmt"
	"io"
	"net/http"
	"os"
	"path/filepath"
	"sort"
	"strings"
	"syscall"
	"time"

	"github.com/AdguardTeam/AdGuardHome/internal/filtering"
	"github.com/AdguardTeam/AdGuardHome/internal/filtering/rulelist"
	"github.com/AdguardTeam/AdGuardHome/internal/verifx/lib"
	vtime "github.com/AdguardTeam/AdGuardHome/verifx/vtime"
	"github.com/miekg/dns"
)

// ---- alphabet -------------------------------------------------------------

// Op is one step of a history.
type Op struct {
	// Root is the initial configuration ("" = lists already stored, "fresh" =
	// never downloaded); it is the same in every op of a history.
	Root string `json:"root,omitempty"`
	// Kind: FB = forced refresh of the block side, FA = forced refresh of the
	// allow side, S1 / S25 = scheduled refresh 1 h / 25 h after the previous
	// step, local = change the local list file, restart = new DNSFilter over
	// the same data directory, OFFB / OFFA = the block / allow list is switched
	// off through set_url, ONB / ONA = it is switched on again through set_url
	// (which downloads it: a refresh like any other).
	Kind string `json:"op"`
	// B and A are the answers of the list server for the block and the allow
	// URL during this step.
	B string `json:"block_answer,omitempty"`
	A string `json:"allow_answer,omitempty"`
	// Local is the new state of the local list file.
	Local string `json:"local,omitempty"`
}

func (o Op) String() string {
	switch o.Kind {
	case "FB":
		return "FB(" + o.B + ")"
	case "FA":
		return "FA(" + o.A + ")"
	case "ONB":
		return "set_url-enable-block(" + o.B + ")"
	case "ONA":
		return "set_url-enable-allow(" + o.A + ")"
	case "OFFB":
		return "set_url-disable-block"
	case "OFFA":
		return "set_url-disable-allow"
	case "SU":
		return "set_url-failing(" + o.B + ")"
	case "S1", "S25":
		return o.Kind + "(" + o.B + "," + o.A + ")"
	case "local":
		return "local(" + o.Local + ")"
	}
	return o.Kind
}

var answers = []string{"L1", "L2", "same", "empty", "connerr", "404", "500", "204", "206", "eof0", "eofmid", "eofline", "eofend", "html", "nul1", "nulN"}

// Answer pairs of a scheduled refresh.  The per-answer detail is exercised by
// the forced refreshes; the scheduled ones add the interplay of the two sides
// and of the update times, so the quick tier combines representatives only.
var (
	repsLong  = []string{"L1", "L2", "same", "connerr", "eofmid", "nulN"}
	repsShort = []string{"L1", "same", "connerr", "eofmid"}
)

var localStates = []string{"F0", "F1", "missing", "dir"}

func answerOK(a string) bool {
	return a == "L1" || a == "L2" || a == "same" || a == "empty" || a == "big"
}

// bigBody is a list of more than 64 MiB: a rule, 67000 comment lines of 1 KiB
// and a last rule.  Its normal form is the two rules.
var bigBodyText string

func bigBody() string {
	if bigBodyText == "" {
		var sb strings.Builder
		sb.WriteString("||bighead.example^\n")
		line := "# " + strings.Repeat("c", 1021) + "\n"
		for i := 0; i < 67000; i++ {
			sb.WriteString(line)
		}
		sb.WriteString("||bigtail.example^\n")
		bigBodyText = sb.String()
	}
	return bigBodyText
}

func alphabet(quick bool, root string) (ops []Op) {
	for _, a := range answers {
		ops = append(ops, Op{Root: root, Kind: "FB", B: a})
	}
	for _, a := range answers {
		ops = append(ops, Op{Root: root, Kind: "FA", A: a})
	}
	in := func(set []string, a string) bool {
		for _, r := range set {
			if r == a {
				return true
			}
		}
		return false
	}
	for _, k := range []string{"S25", "S1"} {
		for _, b := range answers {
			for _, a := range answers {
				switch {
				case quick && k == "S25" && !(in(repsLong, a) && in(repsLong, b)):
					continue
				case quick && k == "S1" && !(in(repsShort, a) && in(repsShort, b)):
					continue
				case !quick && k == "S1" && !in(repsShort, a) && !in(repsShort, b):
					continue
				}
				ops = append(ops, Op{Root: root, Kind: k, B: b, A: a})
			}
		}
	}
	for _, a := range []string{"connerr", "404", "eofmid", "html", "nul1"} {
		ops = append(ops, Op{Root: root, Kind: "SU", B: a})
	}
	for _, l := range localStates {
		ops = append(ops, Op{Root: root, Kind: "local", Local: l})
	}
	// Switching a list off and on again.  Switching on downloads the list, so
	// it takes an answer; the quick tier uses the short representatives.
	ops = append(ops, Op{Root: root, Kind: "OFFB"}, Op{Root: root, Kind: "OFFA"})
	for _, a := range answers {
		// "empty" is in the quick tier as well: the checksum of an empty list
		// is the value a list that was switched off is reset to.
		if quick && !in(repsShort, a) && a != "empty" {
			continue
		}
		ops = append(ops, Op{Root: root, Kind: "ONB", B: a}, Op{Root: root, Kind: "ONA", A: a})
	}
	ops = append(ops, Op{Root: root, Kind: "restart"})
	return ops
}

// ---- list contents --------------------------------------------------------

const (
	urlBlock = "http://lists.test/block.txt"
	urlAllow = "http://lists.test/allow.txt"
	// urlBlock2 is the address a set_url edit tries to move the block list to.
	urlBlock2 = "http://lists.test/block2.txt"

	idBlock = 1
	idAllow = 2
	idLocal = 3
)

var contents = map[string]map[string]string{
	urlBlock: {
		"seed": "! Title: Block Zero\n||b0.example^\n||sh.example^\n",
		"L1":   "! Title: Block One\r\n# comment\r\n\r\n  ||b1.example^  \r\n##.banner\r\n\t0.0.0.0 b2.example\t\n!another\n||sh.example^",
		"L2":   "||b3.example^\n\n||b1.example^\n   \n",
	},
	urlAllow: {
		"seed": "||a0.example^\n",
		"L1":   "# allow one\n||b1.example^\n ||a1.example^ \r\n",
		"L2":   "||sh.example^\n",
	},
}

var localContents = map[string]string{
	"F0": "||f0.example^\n",
	"F1": " ||f1.example^\n# c\n\n||b0.example^",
}

const (
	cutBody  = "||c1.example^\n||c2.example^\n||c3.example^\n"
	nul1Body = "||c1.example^\x00\n||c2.example^\n"
	nulNBody = "||c1.example^\n||c2.example^\n||c3\x00.example^\n"
	htmlBody = "<!DOCTYPE html>\n<html><head><title>Sign in</title></head>\n<body>\n||c1.example^\n</body></html>\n"
)

var probes = []string{"b0.example", "b1.example", "b2.example", "b3.example", "sh.example", "a0.example", "a1.example",
	"c1.example", "c2.example", "c3.example", "f0.example", "f1.example", "none.example"}

// ---- scripted transport ---------------------------------------------------

type cutReader struct {
	data []byte
	pos  int
	err  error
}

func (r *cutReader) Read(p []byte) (n int, err error) {
	if r.pos >= len(r.data) {
		return 0, r.err
	}
	n = copy(p, r.data[r.pos:])
	r.pos += n
	return n, nil
}

func (r *cutReader) Close() error { return nil }

type transport struct {
	w      *world
	script map[string]string
	log    []string
}

func (t *transport) RoundTrip(req *http.Request) (*http.Response, error) {
	u := req.URL.String()
	t.log = append(t.log, u)
	a, ok := t.script[u]
	if !ok {
		return nil, fmt.Errorf("verif: unscripted request to %s", u)
	}
	mk := func(code int, body string, cut int) *http.Response {
		rd := &cutReader{data: []byte(body), err: io.EOF}
		if cut >= 0 {
			rd.data = rd.data[:cut]
			rd.err = io.ErrUnexpectedEOF
		}
		return &http.Response{
			Status: fmt.Sprintf("%d %s", code, http.StatusText(code)), StatusCode: code,
			Proto: "HTTP/1.1", ProtoMajor: 1, ProtoMinor: 1,
			Header: http.Header{"Content-Type": []string{"text/plain"}}, Body: rd, ContentLength: -1, Request: req,
		}
	}
	line1 := strings.Index(cutBody, "\n") + 1
	switch a {
	case "L1", "L2":
		return mk(200, contents[u][a], -1), nil
	case "same":
		return mk(200, t.w.lastRaw[u], -1), nil
	case "big":
		return mk(200, bigBody(), -1), nil
	case "empty":
		return mk(200, "", -1), nil
	case "connerr":
		return nil, errors.New("dial tcp 192.0.2.1:80: connect: connection refused")
	case "404":
		return mk(404, "||c1.example^\n", -1), nil
	case "500":
		return mk(500, "||c1.example^\n", -1), nil
	case "204":
		// "No Content": a success-class status that is not 200.
		return mk(204, "", -1), nil
	case "206":
		// "Partial Content": a fragment of the other list version.
		return mk(206, "||c1.example^\n||fragment.example^\n", -1), nil
	case "eof0":
		return mk(200, cutBody, 0), nil
	case "eofmid":
		return mk(200, cutBody, line1+6), nil
	case "eofline":
		return mk(200, cutBody, line1), nil
	case "eofend":
		return mk(200, cutBody, len(cutBody)), nil
	case "html":
		return mk(200, htmlBody, -1), nil
	case "nul1":
		return mk(200, nul1Body, -1), nil
	case "nulN":
		return mk(200, nulNBody, -1), nil
	}
	return nil, fmt.Errorf("verif: unknown answer %q", a)
}

// servedRaw is the raw text a successful answer delivers.
func (w *world) servedRaw(u, a string) string {
	switch a {
	case "L1", "L2":
		return contents[u][a]
	case "same":
		return w.lastRaw[u]
	case "big":
		return bigBody()
	}
	return ""
}

// ---- world: real instance + model -----------------------------------------

// mlist is the model of one list: the bytes stored by the last successful
// refresh.  The rules in force are, by the property, the rules of these bytes.
type mlist struct {
	Exists bool   `json:"exists"`
	File   string `json:"file"`
	Count  int    `json:"count"`
	Sum    uint32 `json:"sum"`
	// Off: the list is switched off.  Its file stays, its rules are not in
	// force, and it is not refreshed.
	Off bool `json:"off,omitempty"`
}

type world struct {
	c        *lib.Ctx
	dir      string
	dataDir  string
	localDir string
	tmpDir   string
	d        *filtering.DNSFilter
	tr       *transport
	lastRaw  map[string]string
	local    string
	model    map[int]*mlist
}

var base = time.Date(2026, 3, 1, 12, 0, 0, 0, time.UTC)

const interval = 24 * time.Hour

func (w *world) listPath(id int) string {
	return filepath.Join(w.dataDir, "filters", fmt.Sprintf("%d.txt", id))
}

func (w *world) localPath() string { return filepath.Join(w.localDir, "list.txt") }

func newWorld(c *lib.Ctx, root string) (w *world, err error) {
	dir, err := os.MkdirTemp(c.TmpDir, "c15-")
	if err != nil {
		return nil, err
	}
	w = &world{c: c, dir: dir, dataDir: filepath.Join(dir, "data"), localDir: filepath.Join(dir, "local"), tmpDir: filepath.Join(dir, "tmp"),
		lastRaw: map[string]string{urlBlock: contents[urlBlock]["seed"], urlAllow: contents[urlAllow]["seed"]},
		local:   "F0", model: map[int]*mlist{idBlock: {}, idAllow: {}, idLocal: {}}}
	w.tr = &transport{w: w}
	for _, d := range []string{filepath.Join(w.dataDir, "filters"), w.localDir, w.tmpDir} {
		if err = os.MkdirAll(d, 0o755); err != nil {
			return nil, err
		}
	}
	// renameio puts its pending files into os.TempDir() when that is on the
	// same file system; keep them inside the world.
	_ = os.Setenv("TMPDIR", w.tmpDir)
	if err = os.WriteFile(w.localPath(), []byte(localContents["F0"]), 0o644); err != nil {
		return nil, err
	}
	if root != "fresh" {
		old := base.Add(-100 * time.Hour)
		for id, raw := range map[int]string{idBlock: contents[urlBlock]["seed"], idAllow: contents[urlAllow]["seed"], idLocal: localContents["F0"]} {
			if err = os.WriteFile(w.listPath(id), []byte(refNormal(raw)), 0o644); err != nil {
				return nil, err
			}
			if err = os.Chtimes(w.listPath(id), old, old); err != nil {
				return nil, err
			}
			*w.model[id] = mlist{Exists: true, File: refNormal(raw), Count: len(refRuleLines(raw)), Sum: refSum(raw)}
		}
	}
	if err = w.start(nil, nil); err != nil {
		return nil, err
	}
	return w, nil
}

// start creates the DNSFilter like home does: New, then EnableFilters(false).
func (w *world) start(names map[int]string, disabled map[int]bool) (err error) {
	if names == nil {
		names = map[int]string{idBlock: "block list", idAllow: "allow list", idLocal: "local list"}
	}
	mk := func(id int, url string, white bool) filtering.FilterYAML {
		f := filtering.VerifC15Filter(id, url, names[id], white)
		f.Enabled = !disabled[id]
		return f
	}
	conf := &filtering.Config{
		DataDir:    w.dataDir,
		HTTPClient: &http.Client{Transport: w.tr},
		Filters: []filtering.FilterYAML{
			mk(idBlock, urlBlock, false),
			mk(idLocal, w.localPath(), false),
		},
		WhitelistFilters: []filtering.FilterYAML{
			mk(idAllow, urlAllow, true),
		},
		SafeFSPatterns:             []string{filepath.Join(w.localDir, "*")},
		FilteringEnabled:           true,
		ProtectionEnabled:          true,
		FiltersUpdateIntervalHours: uint32(interval / time.Hour),
		ConfigModified:             func() {},
	}
	w.d, err = filtering.New(conf, nil)
	if err != nil {
		return err
	}
	w.d.EnableFilters(false)
	return nil
}

func (w *world) close() {
	if w.d != nil {
		w.d.Close()
		w.d = nil
	}
	_ = os.RemoveAll(w.dir)
}

// ---- observation ----------------------------------------------------------

type fileObs struct {
	Exists bool   `json:"exists"`
	Bytes  string `json:"bytes"`
	Inode  uint64 `json:"-"`
}

type metaObs struct {
	ID      int    `json:"id"`
	White   bool   `json:"white"`
	Name    string `json:"name"`
	Enabled bool   `json:"enabled"`
	Count   int    `json:"count"`
	Sum     uint32 `json:"sum"`
	// Age is now - LastUpdated as a class: "never", "young" (less than the
	// refresh interval) or "due".  The class decides every later scheduling
	// decision: steps advance the clock by 1 h or by more than the interval,
	// and maxDepth x 1 h is less than the interval (checked in runSequences),
	// so within the explored depth a young list only becomes due through a
	// long step, which makes every list due.
	Age      string `json:"age"`
	lastUpd  time.Time
	neverUpd bool
}

type obs struct {
	Files    map[int]fileObs `json:"files"`
	API      map[int]int     `json:"api_rules_count"`
	Meta     []metaObs       `json:"meta"`
	Verdicts string          `json:"verdicts"`
	Dir      []string        `json:"filters_dir"`
	TmpLeft  int             `json:"tmp_left"`
}

func (w *world) observe() (o obs, err error) {
	o.Files = map[int]fileObs{}
	for _, id := range []int{idBlock, idAllow, idLocal} {
		data, rerr := os.ReadFile(w.listPath(id))
		if rerr != nil {
			if !os.IsNotExist(rerr) {
				return o, rerr
			}
			o.Files[id] = fileObs{}
			continue
		}
		fo := fileObs{Exists: true, Bytes: string(data)}
		if st, serr := os.Stat(w.listPath(id)); serr == nil {
			if sys, ok := st.Sys().(*syscall.Stat_t); ok {
				fo.Inode = sys.Ino
			}
		}
		o.Files[id] = fo
	}
	code, body := w.d.VerifC15Status()
	if code != 200 {
		return o, fmt.Errorf("status API answered %d", code)
	}
	var st struct {
		Filters []struct {
			ID    int `json:"id"`
			Count int `json:"rules_count"`
		} `json:"filters"`
		Whitelist []struct {
			ID    int `json:"id"`
			Count int `json:"rules_count"`
		} `json:"whitelist_filters"`
	}
	if err = json.Unmarshal(body, &st); err != nil {
		return o, err
	}
	o.API = map[int]int{}
	for _, f := range st.Filters {
		o.API[f.ID] = f.Count
	}
	for _, f := range st.Whitelist {
		o.API[f.ID] = f.Count
	}
	now := vtime.Now()
	for _, l := range w.d.VerifC15Lists() {
		m := metaObs{ID: l.ID, White: l.White, Name: l.Name, Enabled: l.Enabled, Count: l.RulesCount, Sum: l.Checksum, Age: "never", lastUpd: l.LastUpdated, neverUpd: l.LastUpdated.IsZero()}
		if !m.neverUpd {
			m.Age = "young"
			if now.Sub(l.LastUpdated) >= interval {
				m.Age = "due"
			}
		}
		o.Meta = append(o.Meta, m)
	}
	sort.Slice(o.Meta, func(i, j int) bool { return o.Meta[i].ID < o.Meta[j].ID })
	setts := w.d.Settings()
	setts.ProtectionEnabled = true
	var vs []string
	for _, p := range probes {
		res, cerr := w.d.CheckHost(p, dns.TypeA, setts)
		v := ""
		switch {
		case cerr != nil:
			v = "error:" + cerr.Error()
		case res.Reason == filtering.FilteredBlockList:
			v = "block"
		case res.Reason == filtering.NotFilteredAllowList:
			v = "allow"
		case res.Reason == filtering.NotFilteredNotFound:
			v = "none"
		default:
			v = res.Reason.String()
		}
		vs = append(vs, strings.TrimSuffix(p, ".example")+"="+v)
	}
	o.Verdicts = strings.Join(vs, " ")
	ents, _ := os.ReadDir(filepath.Join(w.dataDir, "filters"))
	for _, e := range ents {
		n := e.Name()
		if n != "1.txt" && n != "2.txt" && n != "3.txt" {
			n = "other"
		}
		o.Dir = append(o.Dir, n)
	}
	sort.Strings(o.Dir)
	tents, _ := os.ReadDir(w.tmpDir)
	o.TmpLeft = len(tents)
	return o, nil
}

// modelVerdicts are the verdicts the property demands: the rules in force are
// those of the bytes stored by the last successful refresh of each list.
func (w *world) modelVerdicts() string {
	in := func(id int, name string) bool {
		m := w.model[id]
		if !m.Exists || m.Off {
			return false
		}
		for _, n := range refNames(m.File) {
			if n == name {
				return true
			}
		}
		return false
	}
	var vs []string
	for _, p := range probes {
		v := "none"
		switch {
		case in(idAllow, p):
			v = "allow"
		case in(idBlock, p) || in(idLocal, p):
			v = "block"
		}
		vs = append(vs, strings.TrimSuffix(p, ".example")+"="+v)
	}
	return strings.Join(vs, " ")
}

// ---- one step -------------------------------------------------------------

type seqEnv struct{ c *lib.Ctx }

func sideOf(id int) string {
	if id == idAllow {
		return "allow"
	}
	if id == idLocal {
		return "block-local"
	}
	return "block"
}

// step executes op on the real instance, checks the oracle and updates the
// model.  It returns the outcome label, whether the step was non-trivial and
// the violation, if any.
func (w *world) step(op Op, hist []Op) (outcome string, nontrivial bool, vkey, vdesc string) {
	adv := time.Hour
	if op.Kind == "S25" {
		adv = 25 * time.Hour
	}
	vtime.AdvanceVirtual(adv)
	now := vtime.Now()
	pre, err := w.observe()
	if err != nil {
		return "", false, "harness-observe", err.Error()
	}
	w.tr.log = nil
	w.tr.script = map[string]string{}
	fail := func(key, msg string, post *obs) (string, bool, string, string) {
		d := fmt.Sprintf("%s\nhistory (root=%q): %s\nbefore the last step: %s", msg, op.Root, histString(hist), jsonStr(pre))
		if post != nil {
			d += "\nafter the last step:  " + jsonStr(*post)
		}
		d += "\nmodel: " + jsonStr(w.model)
		return "", false, key, d
	}
	var panicked any
	func() {
		defer func() { panicked = recover() }()
		switch op.Kind {
		case "FB":
			w.tr.script[urlBlock] = op.B
			if code, body := w.d.VerifC15ForcedRefresh(false); code != 200 {
				panic(fmt.Sprintf("harness: refresh API answered %d %s", code, body))
			}
		case "FA":
			w.tr.script[urlAllow] = op.A
			if code, body := w.d.VerifC15ForcedRefresh(true); code != 200 {
				panic(fmt.Sprintf("harness: refresh API answered %d %s", code, body))
			}
		case "SU":
			// The address of the block list is edited (set_url) to another one
			// whose download fails: the edit is refused and nothing changes.
			w.tr.script[urlBlock2] = op.B
			if _, serr := w.d.VerifC14SetURL(urlBlock, urlBlock2); serr == nil {
				panic("setaccepted")
			}
		case "OFFB", "OFFA", "ONB", "ONA":
			// The list is switched off or on through the set_url handler; name
			// and address stay as they are.
			id, u, white, answer := idBlock, urlBlock, false, op.B
			if op.Kind == "OFFA" || op.Kind == "ONA" {
				id, u, white, answer = idAllow, urlAllow, true, op.A
			}
			on := op.Kind == "ONB" || op.Kind == "ONA"
			if on {
				w.tr.script[u] = answer
			}
			name := ""
			for _, m := range pre.Meta {
				if m.ID == id {
					name = m.Name
				}
			}
			// 200 = accepted, 400 = refused (the download failed); which of the
			// two is not part of the property, the effects are.
			if code, body := w.d.VerifC15SetURL(u, white, name, u, on); code != 200 && code != 400 {
				panic(fmt.Sprintf("harness: set_url API answered %d %s", code, body))
			}
		case "S1", "S25":
			w.tr.script[urlBlock] = op.B
			w.tr.script[urlAllow] = op.A
			w.d.VerifC15ScheduledRefresh()
		case "local":
			_ = os.RemoveAll(w.localPath())
			switch op.Local {
			case "F0", "F1":
				if werr := os.WriteFile(w.localPath(), []byte(localContents[op.Local]), 0o644); werr != nil {
					panic("harness: " + werr.Error())
				}
			case "dir":
				if werr := os.Mkdir(w.localPath(), 0o755); werr != nil {
					panic("harness: " + werr.Error())
				}
			}
			w.local = op.Local
		case "restart":
			names, disabled := map[int]string{}, map[int]bool{}
			for _, m := range pre.Meta {
				names[m.ID] = m.Name
				disabled[m.ID] = !m.Enabled
			}
			w.d.Close()
			w.d = nil
			if serr := w.start(names, disabled); serr != nil {
				panic("harness: restart: " + serr.Error())
			}
		}
	}()
	if panicked != nil {
		if s, ok := panicked.(string); ok && strings.HasPrefix(s, "harness: ") {
			return "", false, "harness-step", s
		}
		if s, ok := panicked.(string); ok && s == "setaccepted" {
			return fail("set-url-accepted-although-download-failed:"+op.B, fmt.Sprintf("set_url to an address whose download fails (%s) was accepted", op.B), nil)
		}
		return fail("panic:"+op.Kind, fmt.Sprintf("the refresh panicked: %v", panicked), nil)
	}
	// A replaced file is stamped with the kernel clock; move it to the virtual
	// clock, where the code believes it is.
	for _, id := range []int{idBlock, idAllow, idLocal} {
		if st, serr := os.Stat(w.listPath(id)); serr == nil {
			if sys, ok := st.Sys().(*syscall.Stat_t); ok && (!pre.Files[id].Exists || sys.Ino != pre.Files[id].Inode) {
				_ = os.Chtimes(w.listPath(id), now, now)
			}
		}
	}
	post, err := w.observe()
	if err != nil {
		return "", false, "harness-observe", err.Error()
	}

	// Which lists were attempted, and with what answer.
	requested := map[string]int{}
	for _, u := range w.tr.log {
		requested[u]++
	}
	type attempt struct {
		id     int
		answer string
		ok     bool
		raw    string
	}
	var atts []attempt
	due := func(id int) bool {
		for _, m := range pre.Meta {
			if m.ID == id {
				return m.neverUpd || !now.Before(m.lastUpd.Add(interval))
			}
		}
		return false
	}
	localAttempt := func() attempt {
		a := attempt{id: idLocal, answer: "local-" + w.local}
		if raw, ok := localContents[w.local]; ok {
			a.ok, a.raw = true, raw
		}
		return a
	}
	if op.Kind == "SU" {
		atts = append(atts, attempt{id: idBlock, answer: "set_url:" + op.B, ok: false})
	}
	// Switching a list on is a refresh of that list iff it was downloaded.
	enabling := 0
	switch {
	case op.Kind == "ONB" && requested[urlBlock] > 0:
		enabling = idBlock
		atts = append(atts, attempt{id: idBlock, answer: op.B, ok: answerOK(op.B), raw: w.servedRaw(urlBlock, op.B)})
	case op.Kind == "ONA" && requested[urlAllow] > 0:
		enabling = idAllow
		atts = append(atts, attempt{id: idAllow, answer: op.A, ok: answerOK(op.A), raw: w.servedRaw(urlAllow, op.A)})
	}
	disabling := map[string]int{"OFFB": idBlock, "OFFA": idAllow}[op.Kind]
	refreshOp := op.Kind == "FB" || op.Kind == "FA" || op.Kind == "S1" || op.Kind == "S25"
	if refreshOp {
		if requested[urlBlock] > 0 {
			atts = append(atts, attempt{id: idBlock, answer: op.B, ok: answerOK(op.B), raw: w.servedRaw(urlBlock, op.B)})
		}
		if requested[urlAllow] > 0 {
			atts = append(atts, attempt{id: idAllow, answer: op.A, ok: answerOK(op.A), raw: w.servedRaw(urlAllow, op.A)})
		}
		if op.Kind == "FB" || (op.Kind != "FA" && due(idLocal)) {
			atts = append(atts, localAttempt())
		}
		if (op.Kind == "FB" && requested[urlBlock] != 1 && !w.model[idBlock].Off) || (op.Kind == "FA" && requested[urlAllow] != 1 && !w.model[idAllow].Off) || requested[urlBlock] > 1 || requested[urlAllow] > 1 {
			w.c.Note("unexpected_request_count", fmt.Sprintf("%s made requests %v", op, w.tr.log))
		}
	}

	// Per-list oracle.
	results := map[int]string{}
	changedAny, failedWithFile := false, false
	failAnswers := []string{}
	for _, id := range []int{idBlock, idAllow, idLocal} {
		m := w.model[id]
		var at *attempt
		for i := range atts {
			if atts[i].id == id {
				at = &atts[i]
			}
		}
		pf, qf := pre.Files[id], post.Files[id]
		sameFile := pf.Exists == qf.Exists && pf.Bytes == qf.Bytes
		sameCount := pre.API[id] == post.API[id]
		switch {
		case at == nil && id == disabling:
			// Switched off: the file stays (the rule count of a list that is off
			// is not the statement's business), its rules go out of force.
			if !sameFile || (pf.Exists && pf.Inode != qf.Inode) {
				return fail("disabled-list-file-changed:"+sideOf(id), fmt.Sprintf("list %d was switched off and its file changed", id), &post)
			}
			m.Off = true
		case at == nil:
			if !sameFile || !sameCount {
				return fail("untouched-list-changed:"+sideOf(id)+":"+op.Kind, fmt.Sprintf("list %d was not refreshed in this step but its file or rule count changed", id), &post)
			}
		case !at.ok:
			results[id] = "fail(" + at.answer + ")"
			failAnswers = append(failAnswers, sideOf(id)+":"+at.answer)
			if pf.Exists {
				failedWithFile = true
			}
			if !sameFile {
				return fail("failed-refresh-changed-file:"+sideOf(id)+":"+at.answer,
					fmt.Sprintf("the refresh of list %d failed (%s) but data/filters/%d.txt changed: before exists=%v %q, after exists=%v %q", id, at.answer, id, pf.Exists, pf.Bytes, qf.Exists, qf.Bytes), &post)
			}
			if !sameCount {
				return fail("failed-refresh-changed-count:"+sideOf(id)+":"+at.answer,
					fmt.Sprintf("the refresh of list %d failed (%s) but rules_count changed from %d to %d", id, at.answer, pre.API[id], post.API[id]), &post)
			}
		default:
			norm, sum, cnt := refNormal(at.raw), refSum(at.raw), len(refRuleLines(at.raw))
			// A list that is switched on again is treated as new content
			// whatever its checksum: it must be stored, counted and in force;
			// that its file is not rewritten is not demanded across an off
			// period.
			if sum == m.Sum && id != enabling {
				results[id] = "same"
				if !sameFile || (pf.Exists && pf.Inode != qf.Inode) {
					return fail("unchanged-content-rewritten:"+sideOf(id)+":"+at.answer,
						fmt.Sprintf("list %d was served content with the stored checksum %08x, yet the file was replaced (inode %d -> %d, bytes equal: %v)", id, sum, pf.Inode, qf.Inode, sameFile), &post)
				}
				if !sameCount {
					return fail("unchanged-content-changed-count:"+sideOf(id)+":"+at.answer,
						fmt.Sprintf("list %d was served unchanged content but rules_count changed from %d to %d", id, pre.API[id], post.API[id]), &post)
				}
			} else {
				results[id] = "changed"
				changedAny = true
				if !qf.Exists || qf.Bytes != norm {
					k := "success-wrong-file:" + sideOf(id) + ":" + at.answer
					if id == enabling {
						k += ":after-switch-on"
					}
					return fail(k,
						fmt.Sprintf("list %d was refreshed successfully (%s); data/filters/%d.txt must hold the normal form %q, it holds exists=%v %q", id, at.answer, id, norm, qf.Exists, qf.Bytes), &post)
				}
				if post.API[id] != cnt {
					return fail("success-wrong-count:"+sideOf(id)+":"+at.answer,
						fmt.Sprintf("list %d was refreshed successfully (%s); rules_count must be %d, it is %d", id, at.answer, cnt, post.API[id]), &post)
				}
				*m = mlist{Exists: true, File: norm, Count: cnt, Sum: sum}
			}
			if id == idBlock {
				w.lastRaw[urlBlock] = at.raw
			} else if id == idAllow {
				w.lastRaw[urlAllow] = at.raw
			}
		}
		// The stored form must be stable: its re-parse gives the count and the
		// checksum the implementation reports.
		if qf.Exists {
			var sink bytes.Buffer
			r, perr := rulelist.NewParser().Parse(&sink, strings.NewReader(qf.Bytes), make([]byte, rulelist.DefaultRuleBufSize))
			var mo metaObs
			for _, x := range post.Meta {
				if x.ID == id {
					mo = x
				}
			}
			if m.Off && perr == nil && sink.String() == qf.Bytes {
				// A list that is off reports no count and no checksum.
				continue
			}
			if perr != nil || r.RulesCount != post.API[id] || r.Checksum != mo.Sum || sink.String() != qf.Bytes {
				return fail("stored-form-not-stable:"+sideOf(id),
					fmt.Sprintf("re-parsing data/filters/%d.txt gives err=%v count=%d checksum=%08x bytes-equal=%v; the list reports count=%d checksum=%08x", id, perr, r.RulesCount, r.Checksum, sink.String() == qf.Bytes, post.API[id], mo.Sum), &post)
			}
		}
	}

	// Rules in force.
	want := w.modelVerdicts()
	if post.Verdicts != want {
		sideStatus := func(ids ...int) string {
			s := "untouched"
			for _, id := range ids {
				switch r := results[id]; {
				case r == "changed":
					return "changed"
				case strings.HasPrefix(r, "fail"):
					s = "failed"
				case r == "same" && s == "untouched":
					s = "same"
				}
			}
			return s
		}
		kind := map[string]string{"FB": "forced-block", "FA": "forced-allow", "S1": "scheduled", "S25": "scheduled"}[op.Kind]
		if kind == "" {
			kind = op.Kind
		}
		switch {
		case changedAny:
			return fail(fmt.Sprintf("success-not-in-force:%s:block=%s,allow=%s", kind, sideStatus(idBlock, idLocal), sideStatus(idAllow)),
				fmt.Sprintf("a list was replaced by a successful refresh, but the verdicts are not those of the stored lists:\n want %s\n got  %s\n was  %s", want, post.Verdicts, pre.Verdicts), &post)
		case len(failAnswers) > 0:
			return fail("failed-refresh-changed-verdict:"+strings.Join(failAnswers, "+"),
				fmt.Sprintf("no list was replaced in this step, but the verdicts changed:\n was  %s\n got  %s", pre.Verdicts, post.Verdicts), &post)
		default:
			return fail("noop-changed-verdict:"+kind,
				fmt.Sprintf("no list was replaced in this step, but the verdicts are not those of the stored lists:\n want %s\n got  %s\n was  %s", want, post.Verdicts, pre.Verdicts), &post)
		}
	}

	var parts []string
	for _, id := range []int{idBlock, idAllow, idLocal} {
		if r, ok := results[id]; ok {
			parts = append(parts, fmt.Sprintf("%d=%s", id, r))
		}
	}
	outcome = op.Kind + ":" + strings.Join(parts, ",")
	return outcome, changedAny || failedWithFile, "", ""
}

func histString(hist []Op) string {
	var s []string
	for _, o := range hist {
		s = append(s, o.String())
	}
	return strings.Join(s, " ; ")
}

func jsonStr(v any) string { b, _ := json.Marshal(v); return string(b) }

// exec replays hist on a fresh instance; the oracle result of the last step
// is reported.
func (e *seqEnv) exec(hist []Op) (st lib.Step) {
	root := ""
	if len(hist) > 0 {
		root = hist[0].Root
	}
	return e.execRoot(root, hist)
}

func (e *seqEnv) execRoot(root string, hist []Op) (st lib.Step) {
	vtime.SetVirtual(base)
	w, err := newWorld(e.c, root)
	if err != nil {
		e.c.EngineError("world: " + err.Error())
		return lib.Step{}
	}
	defer w.close()
	for i, op := range hist {
		e.c.Count("steps_executed", 1)
		outcome, nt, vkey, vdesc := w.step(op, hist[:i+1])
		if strings.HasPrefix(vkey, "harness-") {
			e.c.EngineError(vkey + ": " + vdesc + " on " + histString(hist[:i+1]))
			return lib.Step{}
		}
		if vkey != "" {
			if i < len(hist)-1 {
				// A prefix violates: it was reported when it was the last step.
				return lib.Step{}
			}
			return lib.Step{VKey: vkey, VDesc: vdesc}
		}
		st.Outcome, st.NonTrivial = outcome, nt
	}
	o, err := w.observe()
	if err != nil {
		e.c.EngineError("observe: " + err.Error())
		return lib.Step{}
	}
	st.Key = jsonStr(map[string]any{"root": root, "impl": o, "model": w.model, "last": w.lastRaw, "local": w.local})
	return st
}

// runBig: "arbitrary list content" includes a list of more than 64 MiB; the
// histories around it are run once, outside the search.
func runBig(c *lib.Ctx) {
	e := &seqEnv{c: c}
	for _, h := range [][]Op{
		{{Kind: "FB", B: "L1"}, {Kind: "FB", B: "big"}, {Kind: "FB", B: "same"}},
		{{Kind: "FA", A: "big"}, {Kind: "S25", B: "big", A: "same"}},
	} {
		for n := 2; n <= len(h); n++ {
			st := e.execRoot("", h[:n])
			c.Count("big_list_histories", 1)
			if st.VKey != "" {
				c.Violation("big-list:"+st.VKey, "with a list of "+fmt.Sprint(len(bigBody()))+" bytes (two rules around 67000 comment lines): "+clipDesc(st.VDesc), h[:n])
				return
			}
		}
	}
	c.Distinct("nontrivial", "big-list")
}

func clipDesc(s string) string {
	if len(s) > 3000 {
		return s[:1500] + " ... " + s[len(s)-1200:]
	}
	return s
}

func runSequences(c *lib.Ctx) {
	if c.ShardI == c.ShardN-1 {
		runBig(c)
	}
	// Depth per root.  The "fresh" root (nothing stored yet) differs from the
	// seeded one only until the first successful refresh of each list.
	depths := map[string]int{"": 3, "fresh": 2}
	if !c.Quick() {
		depths = map[string]int{"": 4, "fresh": 4}
	}
	if v := os.Getenv("VERIF_C15_DEPTH"); v != "" { // development only
		var d int
		fmt.Sscan(v, &d)
		depths = map[string]int{"": d, "fresh": d}
	}
	e := &seqEnv{c: c}
	for _, root := range []string{"", "fresh"} {
		root := root
		if time.Duration(depths[root])*time.Hour >= interval {
			c.EngineError("the age classes of the state key need depth x 1 h < interval")
			return
		}
		ops := alphabet(c.Quick(), root)
		c.Note("alphabet_size", fmt.Sprint(len(ops)))
		c.Note("sequence_depth_root_"+map[string]string{"": "stored", "fresh": "fresh"}[root], fmt.Sprint(depths[root]))
		b := &lib.BFS[Op]{C: c, Ops: ops, Exec: func(h []Op) lib.Step { return e.execRoot(root, h) }, MaxDepth: depths[root], Workers: 1, Confirm: true}
		b.Run()
		if c.Expired() {
			return
		}
	}
}
