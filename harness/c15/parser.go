package main

import (
	"bytes"
	"fmt"
	"strings"

	"github.com/AdguardTeam/AdGuardHome/internal/filtering/rulelist"
	"github.com/AdguardTeam/AdGuardHome/internal/verifx/lib"
)

// lineKinds is the line alphabet.  The kinds collide on purpose: comment
// markers after blanks, '#' inside a rule, blank-only lines, CR inside an LF
// text, control bytes at either end.
var lineKinds = []string{
	0:  "||a.example^",
	1:  "  \t||b.example^ \t",
	2:  "# c",
	3:  "! c",
	4:  "! Title: T",
	5:  "",
	6:  "||c.example^\r",
	7:  " \t ",
	8:  "||d\x01.example^",
	9:  "||e.example^\x7f",
	10: "<html>",
	11: " \t# indented comment",
	12: "0.0.0.0 f.example # trailing",
	13: "LONG70K",
}

// Extra kinds used only in the long-line sub-enumeration.
const (
	kindLong70K  = 13
	kindLongMax  = 14 // longest line the scanner accepts when followed by LF
	kindLongOver = 15 // one byte more
	kindLongPad  = 16 // acceptable length only after trimming
	kindCtlFirst = 17 // a control byte is the first byte of the line (start of an ELF or gzip blob)
	kindHTMLBare = 18 // the opening tag of a page split over lines: the line is exactly the prefix
	kindDocBare  = 19 // likewise the document type declaration
	// Lines of the ad-block syntax that begin with a comment marker followed by
	// more punctuation: by the statement's normal form ("comments dropped" =
	// first byte '#' or '!') they are comments wherever they stand, before or
	// after a title line.
	kindHashHash = 20 // generic cosmetic rule
	kindHashAt   = 21 // generic cosmetic exception
	kindBangHash = 22 // preprocessor directive
)

var longLines = map[int]string{}

func init() {
	longLines[kindLong70K] = "||" + strings.Repeat("x", 70000) + ".example^"
	longLines[kindLongMax] = "||" + strings.Repeat("y", 65535-2-9) + ".example^"
	longLines[kindLongOver] = "||" + strings.Repeat("z", 65536-2-9) + ".example^"
	longLines[kindLongPad] = "  ||" + strings.Repeat("w", 65535-2-9-4) + ".example^  "
	longLines[kindCtlFirst] = "\x7fELF\x02\x01"
	longLines[kindHTMLBare] = "<html"
	longLines[kindDocBare] = "<!DOCTYPE"
	longLines[kindHashHash] = "##.banner"
	longLines[kindHashAt] = "#@#.banner"
	longLines[kindBangHash] = "!#include more.txt"
}

func lineText(k int) string {
	if l, ok := longLines[k]; ok {
		return l
	}
	return lineKinds[k]
}

var endings = []string{"lf", "crlf", "nofinal"}

type parserCase struct {
	Lines  []int  `json:"parser_lines"`
	Ending string `json:"ending"`
}

func (pc parserCase) text() string {
	var b strings.Builder
	sep := "\n"
	if pc.Ending == "crlf" {
		sep = "\r\n"
	}
	for i, k := range pc.Lines {
		b.WriteString(lineText(k))
		if i < len(pc.Lines)-1 || pc.Ending != "nofinal" {
			b.WriteString(sep)
		}
	}
	return b.String()
}

func (pc parserCase) String() string {
	var s []string
	for _, k := range pc.Lines {
		if l, ok := longLines[k]; ok && len(l) < 100 {
			s = append(s, fmt.Sprintf("%q", l))
		} else if ok {
			s = append(s, fmt.Sprintf("<long line kind %d, %d bytes>", k, len(longLines[k])))
		} else {
			s = append(s, fmt.Sprintf("%q", lineKinds[k]))
		}
	}
	return "[" + strings.Join(s, ", ") + "] ending=" + pc.Ending
}

type parserEnv struct {
	buf  []byte
	out  bytes.Buffer
	out2 bytes.Buffer
}

// checkText runs one text through the parser and checks the oracle.
func checkText(c *lib.Ctx, e *parserEnv, pc parserCase) (vkey, vdesc string) {
	if e.buf == nil {
		e.buf = make([]byte, rulelist.DefaultRuleBufSize)
	}
	text := pc.text()
	c.Count("parser_texts", 1)
	e.out.Reset()
	var r *rulelist.ParseResult
	var err error
	var panicked any
	func() {
		defer func() { panicked = recover() }()
		r, err = rulelist.NewParser().Parse(&e.out, strings.NewReader(text), e.buf)
	}()
	fail := func(key, msg string) (string, string) {
		return key, fmt.Sprintf("%s\ninput lines: %s", msg, pc)
	}
	if panicked != nil {
		return fail("parser-panic", fmt.Sprintf("Parse panicked: %v", panicked))
	}
	if r == nil {
		return fail("parser-nil-result", "Parse returned a nil result")
	}
	if err != nil {
		c.Count("parser_rejected", 1)
		c.Distinct("parser_outcomes", "rejected:"+errClass(err))
		return "", ""
	}
	c.Count("parser_accepted", 1)
	// Failure modes the statement enumerates must not be accepted.
	if refHasBinaryRule(text) {
		return fail("binary-accepted", "a rule line carries a control byte, yet the text was accepted")
	}
	if refFirstRuleIsHTML(text) {
		return fail("html-accepted", "the first rule line starts an HTML page, yet the text was accepted")
	}
	out := e.out.String()
	if r.BytesWritten != len(out) {
		return fail("bytes-written-wrong", fmt.Sprintf("BytesWritten=%d but %d bytes were written", r.BytesWritten, len(out)))
	}
	// Shape of the output: only trimmed rule lines.
	nLines := 0
	if out != "" {
		if !strings.HasSuffix(out, "\n") {
			return fail("output-unterminated", "the output does not end with a newline")
		}
		for _, l := range strings.Split(strings.TrimSuffix(out, "\n"), "\n") {
			nLines++
			switch {
			case strings.TrimSpace(l) == "":
				return fail("output-has-blank-line", fmt.Sprintf("the output has a blank line: %s", clip(out)))
			case l[0] == '#' || l[0] == '!':
				return fail("output-has-comment", fmt.Sprintf("the output has a comment line %q", clip(l)))
			case strings.TrimSpace(l) != l:
				return fail("output-line-not-trimmed", fmt.Sprintf("the output has an untrimmed line %q", clip(l)))
			}
		}
	}
	if nLines != r.RulesCount {
		return fail("count-differs-from-output", fmt.Sprintf("RulesCount=%d but the output has %d lines", r.RulesCount, nLines))
	}
	// The output is the normal form of the input: no rule lost, invented or altered.
	if want := refNormal(text); out != want {
		return fail("normal-form-differs-from-reference", fmt.Sprintf("output %s, reference normal form %s", clip(out), clip(want)))
	}
	// Fixed point.
	e.out2.Reset()
	r2, err2 := rulelist.NewParser().Parse(&e.out2, strings.NewReader(out), e.buf)
	switch {
	case err2 != nil:
		return fail("reparse-fails", fmt.Sprintf("the parser's own output is rejected on re-parse: %v", err2))
	case r2.RulesCount != r.RulesCount:
		return fail("reparse-count-differs", fmt.Sprintf("rule count %d, after re-parse %d", r.RulesCount, r2.RulesCount))
	case r2.Checksum != r.Checksum:
		return fail("reparse-checksum-differs", fmt.Sprintf("checksum %08x, after re-parse %08x", r.Checksum, r2.Checksum))
	case e.out2.String() != out:
		return fail("reparse-bytes-differ", fmt.Sprintf("output %s, after re-parse %s", clip(out), clip(e.out2.String())))
	}
	if r.Checksum != refSum(text) {
		return fail("checksum-differs-from-reference", fmt.Sprintf("checksum %08x, CRC-32 over the rule lines %08x", r.Checksum, refSum(text)))
	}
	c.Distinct("parser_outcomes", fmt.Sprintf("accepted:rules=%d:changed=%v:title=%v", r.RulesCount, out != text, r.Title != ""))
	if r.RulesCount > 0 && out != text {
		c.Distinct("nontrivial_parser", fmt.Sprint(pc.Lines, pc.Ending))
	}
	return "", ""
}

func errClass(err error) string {
	s := err.Error()
	switch {
	case strings.Contains(s, "binary"):
		return "binary"
	case strings.Contains(s, "html") || strings.Contains(s, "HTML"):
		return "html"
	case strings.Contains(s, "too long"):
		return "toolong"
	}
	return "other:" + s
}

func clip(s string) string {
	if len(s) > 200 {
		return fmt.Sprintf("%q...(%d bytes)", s[:200], len(s))
	}
	return fmt.Sprintf("%q", s)
}

// enumerate calls f for every tuple over kinds of length 0..maxLines.
func enumerate(kinds []int, maxLines int, f func(lines []int) bool) {
	for n := 0; n <= maxLines; n++ {
		idx := make([]int, n)
		for {
			lines := make([]int, n)
			for i, x := range idx {
				lines[i] = kinds[x]
			}
			if !f(lines) {
				return
			}
			i := n - 1
			for ; i >= 0; i-- {
				idx[i]++
				if idx[i] < len(kinds) {
					break
				}
				idx[i] = 0
			}
			if i < 0 {
				break
			}
		}
	}
}

func runParser(c *lib.Ctx) {
	e := &parserEnv{}
	short := []int{0, 1, 2, 3, 4, 5, 6, 7, 8, 9, 10, 11, 12}
	all := append(append([]int{}, short...), kindLong70K)
	type pass struct {
		name     string
		kinds    []int
		maxLines int
		need     func(lines []int) bool // nil = all
	}
	hasLong := func(lines []int) bool {
		for _, k := range lines {
			if _, ok := longLines[k]; ok {
				return true
			}
		}
		return false
	}
	hasCtlFirst := func(lines []int) bool {
		for _, k := range lines {
			if k == kindCtlFirst {
				return true
			}
		}
		return false
	}
	hasBare := func(lines []int) bool {
		for _, k := range lines {
			if k == kindHTMLBare || k == kindDocBare {
				return true
			}
		}
		return false
	}
	hasMarker2 := func(lines []int) bool {
		for _, k := range lines {
			if k == kindHashHash || k == kindHashAt || k == kindBangHash {
				return true
			}
		}
		return false
	}
	var passes []pass
	defer func() {
		_ = hasCtlFirst
	}()
	if c.Quick() {
		passes = []pass{
			{"all 14 kinds, <=4 lines", all, 4, nil},
			{"boundary-length lines with 4 short kinds, <=3 lines", []int{0, 2, 5, 8, kindLongMax, kindLongOver, kindLongPad}, 3, hasLong},
			{"a line starting with a control byte with 6 short kinds, <=3 lines", []int{0, 1, 2, 4, 5, 10, kindCtlFirst}, 3, hasCtlFirst},
			{"a line that is exactly <html or <!DOCTYPE with 6 short kinds, <=3 lines", []int{0, 1, 2, 4, 5, 10, kindHTMLBare, kindDocBare}, 3, hasBare},
			{"lines starting with ##, #@# or !# with 6 short kinds, <=4 lines", []int{0, 1, 2, 3, 4, 5, kindHashHash, kindHashAt, kindBangHash}, 4, hasMarker2},
		}
	} else {
		passes = []pass{
			{"13 short kinds, <=6 lines", short, 6, nil},
			{"all 14 kinds with at least one 70 KB line, <=4 lines", all, 4, hasLong},
			{"boundary-length lines with 6 short kinds, <=3 lines", []int{0, 1, 2, 5, 8, 10, kindLongMax, kindLongOver, kindLongPad}, 3, hasLong},
			{"a line starting with a control byte with 8 short kinds, <=4 lines", []int{0, 1, 2, 3, 4, 5, 7, 10, kindCtlFirst}, 4, hasCtlFirst},
			{"a line that is exactly <html or <!DOCTYPE with 8 short kinds, <=4 lines", []int{0, 1, 2, 3, 4, 5, 7, 10, kindHTMLBare, kindDocBare}, 4, hasBare},
			{"lines starting with ##, #@# or !# with 9 short kinds, <=5 lines", []int{0, 1, 2, 3, 4, 5, 7, 10, 12, kindHashHash, kindHashAt, kindBangHash}, 5, hasMarker2},
		}
	}
	idx := 0
	for _, p := range passes {
		stopped := false
		enumerate(p.kinds, p.maxLines, func(lines []int) bool {
			if p.need != nil && !p.need(lines) {
				return true
			}
			for _, end := range endings {
				if len(lines) == 0 && end != "lf" {
					continue
				}
				idx++
				if !c.Mine(idx) {
					continue
				}
				if idx%4096 == 0 && c.Expired() {
					stopped = true
					return false
				}
				pc := parserCase{Lines: lines, Ending: end}
				if key, desc := checkText(c, e, pc); key != "" {
					// The parser is deterministic and stateless; re-run once anyway.
					if key2, _ := checkText(c, e, pc); key2 != key {
						c.EngineError(fmt.Sprintf("non-deterministic parser oracle: %q then %q on %s", key, key2, pc))
						return false
					}
					c.Violation("parser:"+key, desc, pc)
				}
				if idx%50021 == 0 {
					c.Sample(map[string]any{"parser_case": pc.String()})
				}
			}
			return true
		})
		c.Note("parser_pass_"+strings.ReplaceAll(p.name, " ", "_"), "done")
		if stopped {
			c.Note("parser_pass_"+strings.ReplaceAll(p.name, " ", "_"), "stopped by the time budget")
			return
		}
	}
}
