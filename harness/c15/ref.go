package main

import (
	"hash/crc32"
	"regexp"
	"sort"
	"strings"
)

// refRuleLines is the reference for "comments and blank lines dropped, lines
// trimmed": the rule lines of a raw list text, in order.
func refRuleLines(raw string) (lines []string) {
	for _, l := range strings.Split(raw, "\n") {
		l = strings.TrimSuffix(l, "\r")
		l = strings.Trim(l, " \t\r\v\f")
		if l == "" || l[0] == '#' || l[0] == '!' {
			continue
		}
		lines = append(lines, l)
	}
	return lines
}

// refNormal is the reference normal form of a raw list text.
func refNormal(raw string) string {
	ls := refRuleLines(raw)
	if len(ls) == 0 {
		return ""
	}
	return strings.Join(ls, "\n") + "\n"
}

// refSum is the documented checksum: CRC-32 over the rule lines.
func refSum(raw string) (sum uint32) {
	for _, l := range refRuleLines(raw) {
		sum = crc32.Update(sum, crc32.IEEETable, []byte(l))
	}
	return sum
}

var nameRe = regexp.MustCompile(`^(?:\|\|([a-z0-9.-]+)\^|0\.0\.0\.0 ([a-z0-9.-]+))$`)

// refNames returns the host names the rule lines of a text cover.  Only the
// two rule shapes used by the list alphabet are understood.
func refNames(raw string) (names []string) {
	for _, l := range refRuleLines(raw) {
		m := nameRe.FindStringSubmatch(l)
		if m == nil {
			continue
		}
		if m[1] != "" {
			names = append(names, m[1])
		} else {
			names = append(names, m[2])
		}
	}
	sort.Strings(names)
	return names
}

// isBinaryByte is the reference for "control byte".
func isBinaryByte(b byte) bool {
	return (b < ' ' || b == 0x7f) && b != '\n' && b != '\r' && b != '\t'
}

// refHasBinaryRule reports whether a rule line carries a control byte.
func refHasBinaryRule(raw string) bool {
	for _, l := range refRuleLines(raw) {
		for i := 0; i < len(l); i++ {
			if isBinaryByte(l[i]) {
				return true
			}
		}
	}
	return false
}

// refFirstRuleIsHTML reports whether the first rule line is the start of an
// HTML page.
func refFirstRuleIsHTML(raw string) bool {
	ls := refRuleLines(raw)
	if len(ls) == 0 {
		return false
	}
	l := strings.ToLower(ls[0])
	return strings.HasPrefix(l, "<html") || strings.HasPrefix(l, "<!doctype")
}
