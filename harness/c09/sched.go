package main

// Phase 2 of C09: updates running concurrently with the hourly flush and with
// API reads, explored exhaustively under the cooperative scheduler (E2,
// DESIGN.md §2.3) up to a preemption bound.

import (
	"encoding/json"
	"fmt"
	"net/http"
	"strings"
	"time"

	"github.com/AdguardTeam/AdGuardHome/internal/aghnet"
	"github.com/AdguardTeam/AdGuardHome/internal/stats"
	"github.com/AdguardTeam/AdGuardHome/internal/verifx/lib"
	vsync "github.com/AdguardTeam/AdGuardHome/verifx/vsync"
)

type schedCase struct {
	Phase    string   `json:"phase"`
	Threads  []string `json:"threads"`
	Pre      int      `json:"updates_before"`
	Bound    int      `json:"preemption_bound"`
	Schedule []int    `json:"schedule"`
	Detail   string   `json:"detail,omitempty"`
}

// schedStatsJSON is the part of GET /control/stats that the consistency oracle reads.
type schedStatsJSON struct {
	TimeUnits string   `json:"time_units"`
	NumDNS    uint64   `json:"num_dns_queries"`
	NumBlock  uint64   `json:"num_blocked_filtering"`
	NumSB     uint64   `json:"num_replaced_safebrowsing"`
	NumSS     uint64   `json:"num_replaced_safesearch"`
	NumPar    uint64   `json:"num_replaced_parental"`
	DNS       []uint64 `json:"dns_queries"`
	Block     []uint64 `json:"blocked_filtering"`
	SB        []uint64 `json:"replaced_safebrowsing"`
	Par       []uint64 `json:"replaced_parental"`
}

func sum(l []uint64) (s uint64) {
	for _, v := range l {
		s += v
	}
	return s
}

// consistent checks one response for internal consistency: each query is in
// exactly one category, so no category exceeds the total, and the hourly
// series sum to the totals.
func consistent(r *schedStatsJSON) string {
	if r.NumBlock+r.NumSB+r.NumSS+r.NumPar > r.NumDNS {
		return fmt.Sprintf("categories exceed the total: total=%d filtered=%d safebrowsing=%d safesearch=%d parental=%d", r.NumDNS, r.NumBlock, r.NumSB, r.NumSS, r.NumPar)
	}
	if r.TimeUnits == "hours" {
		if sum(r.DNS) != r.NumDNS {
			return fmt.Sprintf("dns_queries[] sums to %d, num_dns_queries=%d", sum(r.DNS), r.NumDNS)
		}
		if sum(r.Block) != r.NumBlock {
			return fmt.Sprintf("blocked_filtering[] sums to %d, num_blocked_filtering=%d", sum(r.Block), r.NumBlock)
		}
		if sum(r.SB) != r.NumSB || sum(r.Par) != r.NumPar {
			return "a replaced_* series does not sum to its total"
		}
	}
	return ""
}

// thread kinds: U = Update (blocked), V = Update (not filtered, other client),
// F = hour rollover + flush, G = GET /control/stats, X = reset, D = statistics
// switched off through the legacy POST /control/stats_config {"interval":0}.
var schedScenarios = [][]string{
	{"U", "G"}, {"U", "V", "G"}, {"U", "F"}, {"F", "G"}, {"U", "F", "G"}, {"U", "X"}, {"U", "X", "G"}, {"X", "F"}, {"U", "V", "F"}, {"G", "G", "U"}, {"D", "F"}, {"U", "D", "F"},
	// C = clean shutdown (Close); the final check reopens the database: counts
	// survive an hour rollover racing with the shutdown.
	{"F", "C"}, {"U", "F", "C"},
}

func mkSchedBody(c *lib.Ctx, threads []string, pre int) func() vsync.Body {
	return func() vsync.Body {
		x, err := newSess(c.TmpDir)
		if err != nil {
			panic(err)
		}
		for i := 0; i < pre; i++ {
			x.s.Update(&stats.Entry{Client: "10.0.0.9", Domain: "pre.example", Result: stats.RFiltered, ProcessingTime: time.Millisecond})
		}
		var reads []string
		var readErr string
		nUpd, reset, closed := 0, false, false
		// flushEnded: an iteration of the periodic flusher told its loop to end.
		flushEnded := false
		disabled := false
		var fs []func()
		for _, t := range threads {
			switch t {
			case "U":
				nUpd++
				fs = append(fs, func() {
					x.s.Update(&stats.Entry{Client: "10.0.0.1", Domain: "blocked.example", Result: stats.RFiltered, ProcessingTime: time.Millisecond})
				})
			case "V":
				nUpd++
				fs = append(fs, func() {
					x.s.Update(&stats.Entry{Client: "10.0.0.2", Domain: "plain.example", Result: stats.RNotFiltered, ProcessingTime: time.Millisecond})
				})
			case "F":
				fs = append(fs, func() {
					x.hour.Add(1)
					if !stats.VerifFlush(x.s) {
						flushEnded = true
					}
				})
			case "G":
				fs = append(fs, func() {
					code, body := x.call(http.MethodGet, "/control/stats", "")
					if code != http.StatusOK {
						readErr = fmt.Sprintf("GET /control/stats: HTTP %d %s", code, body)
						return
					}
					reads = append(reads, string(body))
				})
			case "C":
				closed = true
				fs = append(fs, func() { _ = x.s.Close() })
			case "X":
				reset = true
				fs = append(fs, func() { _, _ = x.call(http.MethodPost, "/control/stats_reset", "") })
			case "D":
				// Switching the statistics off through the legacy endpoint clears
				// them; they are switched on again before the final read.
				reset, disabled = true, true
				fs = append(fs, func() { _, _ = x.call(http.MethodPost, "/control/stats_config", `{"interval":0}`) })
			}
		}
		return vsync.Body{
			Names: threads, Threads: fs,
			Final: func() string {
				if readErr != "" && !reset {
					// While a reset replaces the database a read may be refused
					// (HTTP 500, no data); that is unavailability, not a wrong
					// total, and is accepted only then.
					return "read-failed: " + readErr
				}
				if flushEnded && !closed {
					// The loop of periodicFlush ends for good when an iteration
					// says so: no later hour rollover would be honoured.
					return "periodic-flush-ends: an iteration of the hourly flusher ended its loop although the statistics were not shut down"
				}
				for _, b := range reads {
					var r schedStatsJSON
					if err := json.Unmarshal([]byte(b), &r); err != nil {
						return "read-unparsable: " + err.Error()
					}
					if m := consistent(&r); m != "" {
						return "inconsistent-response: " + m
					}
					if r.NumDNS > uint64(pre+nUpd) {
						return fmt.Sprintf("overcount-in-response: %d queries reported, %d were counted", r.NumDNS, pre+nUpd)
					}
					// Updates that completed before the threads started are in every
					// response, whatever the flush is doing at that moment.
					if !reset && r.NumDNS < uint64(pre) {
						return fmt.Sprintf("undercount-in-response: %d queries had been counted before the read began, the response reports %d", pre, r.NumDNS)
					}
				}
				if closed {
					// Restart on the same file, as after a clean shutdown.
					x.s = nil
					ign, _ := aghnet.NewIgnoreEngine(nil)
					if err := x.open(stats.Config{Limit: time.Duration(initialLimit) * time.Hour, Enabled: true, Ignored: ign}); err != nil {
						return "restart-failed: " + err.Error()
					}
				}
				if disabled {
					if code, body := x.call(http.MethodPost, "/control/stats_config", `{"interval":1}`); code != http.StatusOK {
						return fmt.Sprintf("re-enable-failed: HTTP %d %s", code, body)
					}
				}
				// After quiescence every update is counted exactly once (unless a reset ran).
				code, body := x.call(http.MethodGet, "/control/stats", "")
				var r schedStatsJSON
				if code != http.StatusOK || json.Unmarshal(body, &r) != nil {
					return fmt.Sprintf("final-read-failed: HTTP %d", code)
				}
				if m := consistent(&r); m != "" {
					return "inconsistent-final-response: " + m
				}
				want := uint64(pre + nUpd)
				if reset {
					if r.NumDNS > want {
						return fmt.Sprintf("overcount-after-reset: %d > %d", r.NumDNS, want)
					}
					// Only the updates that run concurrently with the reset may be left:
					// whatever was counted before the threads started is cleared in every
					// serial order of reset, flush and reads.
					if r.NumDNS > uint64(nUpd) {
						return fmt.Sprintf("cleared-data-comes-back: %d updates were counted before the reset began and %d run concurrently with it; after the reset the API reports %d", pre, nUpd, r.NumDNS)
					}
				} else if closed && nUpd > 0 && r.NumDNS != want && r.NumDNS != uint64(pre) {
					// An update racing with the shutdown may be refused (statistics already
					// closed); the earlier ones must survive.
					return fmt.Sprintf("conservation-across-shutdown: %d..%d updates were counted before the shutdown, the API reports %d after the restart", pre, want, r.NumDNS)
				} else if closed && nUpd == 0 && r.NumDNS != want {
					return fmt.Sprintf("conservation-across-shutdown: %d updates were counted before the shutdown, the API reports %d after the restart", want, r.NumDNS)
				} else if !closed && r.NumDNS != want {
					return fmt.Sprintf("conservation: %d updates were counted, the API reports %d", want, r.NumDNS)
				}
				return ""
			},
			Cleanup: x.close,
		}
	}
}

func phaseSchedules(c *lib.Ctx) {
	bounds := []int{0, 1}
	maxExec := 4000
	if !c.Quick() {
		bounds = []int{0, 1, 2}
		maxExec = 60000
	}
	idx := 0
	for _, threads := range schedScenarios {
		for _, pre := range []int{0, 2} {
			idx++
			if !c.Mine(idx) {
				continue
			}
			for _, bound := range bounds {
				if c.Expired() {
					return
				}
				st := vsync.Explore(mkSchedBody(c, threads, pre), vsync.Options{Bound: bound, MaxExecutions: maxExec, Deadline: c.Deadline, StuckTimeout: 120 * time.Second, Trace: true, ReleasePoints: true}, nil)
				c.Count("sched_executions", int64(st.Executions))
				c.Count("sched_points", st.Points)
				c.Max("sched_max_points", int64(st.MaxPoints))
				name := strings.Join(threads, "|") + fmt.Sprintf("/pre=%d", pre)
				if !st.Exhaustive {
					c.NotExhaustive(fmt.Sprintf("schedules %s bound %d stopped after %d executions", name, bound, st.Executions))
				} else {
					c.Distinct(fmt.Sprintf("sched_scenarios_bound_%d", bound), name)
				}
				for _, e := range st.EngineErrs {
					c.EngineError("schedules " + name + ": " + e)
				}
				for o := range st.Outcomes {
					c.Distinct("sched_outcomes", name+"|"+o)
				}
				c.Distinct("nontrivial", "sched|"+name+fmt.Sprint(bound))
				for _, v := range st.Violations {
					key := "sched:" + v.Kind
					switch v.Kind {
					case "final":
						key = "sched:" + strings.SplitN(v.Detail, ":", 2)[0]
					case "deadlock":
						key = "sched:deadlock:" + strings.Join(threads, "+")
					}
					d := v.Detail
					if len(d) > 2500 {
						d = d[:2500]
					}
					c.Violation(key, fmt.Sprintf("%s with threads %s (updates before: %d), preemption bound %d, schedule %v:\n%s", v.Kind, name, pre, bound, v.Schedule, d),
						schedCase{Phase: "schedules", Threads: threads, Pre: pre, Bound: bound, Schedule: v.Schedule, Detail: d})
				}
				if len(st.SampleSched) > 0 && idx%5 == 0 {
					c.Sample(map[string]any{"phase": "schedules", "threads": threads, "bound": bound, "executions": st.Executions, "schedule": st.SampleSched[len(st.SampleSched)-1]})
				}
				if len(st.Violations) > 0 {
					break
				}
			}
		}
	}
}

func replaySchedules(c *lib.Ctx, raw json.RawMessage) string {
	var sc schedCase
	if err := json.Unmarshal(raw, &sc); err != nil {
		return err.Error()
	}
	mk := mkSchedBody(c, sc.Threads, sc.Pre)
	r1, f1 := vsync.RunOne(mk, sc.Schedule, vsync.Options{Trace: true, ReleasePoints: true})
	r2, f2 := vsync.RunOne(mk, sc.Schedule, vsync.Options{Trace: true, ReleasePoints: true})
	if len(r1.Points) != len(r2.Points) || f1 != f2 || r1.Deadlock != r2.Deadlock {
		return "REPLAY DIVERGED between two runs of the same schedule (engine error)"
	}
	switch {
	case r1.EngineErr != "":
		return "engine error: " + r1.EngineErr
	case len(r1.Panics) > 0:
		return "panic: " + r1.Panics[0]
	case r1.Deadlock:
		return "deadlock: " + fmt.Sprint(r1.Blocked)
	case r1.Livelock:
		return "livelock"
	}
	return f1
}
