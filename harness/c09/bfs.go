package main

import (
	"encoding/json"
	"fmt"
	"io"
	"log/slog"
	"net/http"
	"net/http/httptest"
	"os"
	"path/filepath"
	"runtime"
	"sort"
	"strings"
	"sync/atomic"
	"time"

	"github.com/AdguardTeam/AdGuardHome/internal/aghnet"
	"github.com/AdguardTeam/AdGuardHome/internal/stats"
	"github.com/AdguardTeam/AdGuardHome/internal/verifx/lib"
	"github.com/AdguardTeam/dnsproxy/proxy"
	glog "github.com/AdguardTeam/golibs/log"
)

// ---- alphabet -------------------------------------------------------------

// op is one operation of a history.
type op struct {
	// Kind: upd, adv, tick, flush, restart, limit, clear, read.
	// tick: the hour turns WHILE a later operation is in progress - the next
	// time the implementation looks at the clock it still sees the old hour,
	// every later look (inside the same operation or after it) sees the next.
	Kind string `json:"op"`
	// upd: result category 1..5 (RNotFiltered, RFiltered, RSafeBrowsing,
	// RSafeSearch, RParental), client, domain, with upstream statistics.
	Cat    int    `json:"cat,omitempty"`
	Client string `json:"client,omitempty"`
	Domain string `json:"domain,omitempty"`
	Ups    bool   `json:"ups,omitempty"`
	// adv: "1", "2", "L-1", "L", "L+1" (L = retention limit in hours at the time).
	Adv string `json:"adv,omitempty"`
	// limit: new limit in hours; Via "put" = PUT /control/stats/config/update,
	// "legacy" = POST /control/stats_config (days).
	Hours uint32 `json:"hours,omitempty"`
	Via   string `json:"via,omitempty"`
}

func (o op) label() string {
	switch o.Kind {
	case "upd":
		return fmt.Sprintf("upd:%d", o.Cat)
	case "adv":
		return "adv:" + o.Adv
	case "limit":
		return fmt.Sprintf("limit:%d:%s", o.Hours, o.Via)
	}
	return o.Kind
}

// opRef is an operation as lib.BFS stores it in its frontier: an index into
// opTable (histories of full op structs would cost ~100 bytes per operation).
// In replay files it is written as the full operation.
type opRef uint8

var opTable []op

func (r opRef) MarshalJSON() ([]byte, error) { return json.Marshal(opTable[r]) }

func derefOps(refs []opRef) []op {
	hist := make([]op, len(refs))
	for i, r := range refs {
		hist[i] = opTable[r]
	}
	return hist
}

const (
	baseHour     = uint32(480013) // 480013 % 24 = 13
	initialLimit = uint32(3)      // hours
)

func alphabet(quick bool) []op {
	var ops []op
	ops = append(ops, op{Kind: "read"})
	ops = append(ops, op{Kind: "flush"})
	for _, a := range []string{"1", "2", "L-1", "L", "L+1"} {
		ops = append(ops, op{Kind: "adv", Adv: a})
	}
	// Updates: every result category once; clients and domains (2 each) and
	// upstream statistics are spread over them - they only feed the top_*
	// lists, which are not part of the property, so a full product would only
	// multiply states that the oracle cannot tell apart.  The same alphabet is
	// used in both tiers; the tiers differ in depth.
	_ = quick
	ops = append(ops,
		op{Kind: "upd", Cat: 1, Client: "10.0.0.1", Domain: "a.example"},
		op{Kind: "upd", Cat: 2, Client: "10.0.0.1", Domain: "a.example"},
		op{Kind: "upd", Cat: 3, Client: "10.0.0.1", Domain: "b.example", Ups: true},
		op{Kind: "upd", Cat: 4, Client: "10.0.0.2", Domain: "a.example"},
		op{Kind: "upd", Cat: 5, Client: "10.0.0.2", Domain: "b.example"},
	)
	ops = append(ops, op{Kind: "restart"})
	ops = append(ops, op{Kind: "clear"})
	// The hour turns in the middle of the next operation that looks at the
	// clock (start-up, hourly flush, reset).
	ops = append(ops, op{Kind: "tick"})
	for _, h := range []uint32{1, 2, 3, 24, 192} {
		ops = append(ops, op{Kind: "limit", Hours: h, Via: "put"})
	}
	ops = append(ops, op{Kind: "limit", Hours: 24, Via: "legacy"})
	// Statistics switched off (limit unchanged); every "limit" operation
	// switches them on again.
	ops = append(ops, op{Kind: "disable"})
	return ops
}

// ---- reference model ---------------------------------------------------------

// hourRec is what the reference knows about one hour: n[0] = queries counted,
// n[1..5] = per result category.
type hourRec struct {
	n [6]uint64
	// maybe: at some moment since the first count the hour lay outside the
	// then-current window; the implementation may have deleted it.
	maybe bool
}

type model struct {
	clock uint32 // what the unit-id generator returns
	cur   uint32 // hour of the last processed rollover (flush/New/clear)
	limit uint32 // hours
	hours map[uint32]*hourRec
	// off: statistics are switched off; updates are not counted.
	off bool
	// armed: a "tick" is pending - the clock turns right after the next look
	// at it.
	armed bool
}

func newModel() *model {
	return &model{clock: baseHour, cur: baseHour, limit: initialLimit, hours: map[uint32]*hourRec{}}
}

func (m *model) advBy(a string) uint32 {
	switch a {
	case "1":
		return 1
	case "2":
		return 2
	case "L-1":
		return m.limit - 1
	case "L":
		return m.limit
	case "L+1":
		return m.limit + 1
	}
	panic("adv " + a)
}

func (m *model) apply(o op) {
	switch o.Kind {
	case "upd":
		if m.off {
			break
		}
		h := m.hours[m.cur]
		if h == nil {
			h = &hourRec{}
			m.hours[m.cur] = h
		}
		h.n[0]++
		h.n[o.Cat]++
	case "adv":
		m.clock += m.advBy(o.Adv)
	case "flush", "restart":
		m.cur = m.clock
	case "limit":
		m.limit = o.Hours
		m.off = false
	case "disable":
		m.off = true
	case "clear":
		m.hours = map[uint32]*hourRec{}
		m.cur = m.clock
	case "tick":
		m.armed = true
	case "read":
	default:
		panic("op " + o.Kind)
	}
	m.mark()
}

// ticked records that the armed turn of the hour happened during operation o:
// the clock showed m.clock when the operation first looked at it and now shows
// now.  If o processes a rollover (start-up, flush, reset), the hour it made
// current is not determined by the statement - any hour the clock showed
// during the operation is admissible - so it is taken from the implementation
// (implCur, ok = there is a current unit) after checking that it is one of
// them.  Counts are then required exactly as for any other current hour.
func (m *model) ticked(o op, now uint32, implCur uint32, ok bool) (vkey, vdesc string) {
	first := m.clock
	m.clock = now
	m.armed = false
	switch o.Kind {
	case "flush", "restart", "clear":
		if !ok {
			break
		}
		if implCur < first || implCur > now {
			return "current-hour-not-on-clock", fmt.Sprintf("after %s, during which the clock went from %d to %d, the current unit is hour %d", o.label(), first, now, implCur)
		}
		m.cur = implCur
		m.mark()
	}
	return "", ""
}

// mark flags the hours that lie outside the window now.
func (m *model) mark() {
	for h, r := range m.hours {
		if h+m.limit <= m.cur {
			r.maybe = true
		}
	}
}

func (m *model) counted() (n uint64) {
	for _, r := range m.hours {
		n += r.n[0]
	}
	return n
}

func (m *model) sortedHours() []uint32 {
	l := make([]uint32, 0, len(m.hours))
	for h := range m.hours {
		l = append(l, h)
	}
	sort.Slice(l, func(i, j int) bool { return l[i] < l[j] })
	return l
}

func (m *model) String() string {
	var sb strings.Builder
	fmt.Fprintf(&sb, "clock=%d cur=%d limit=%dh off=%v", m.clock, m.cur, m.limit, m.off)
	if m.armed {
		sb.WriteString(" tick-armed")
	}
	for _, h := range m.sortedHours() {
		r := m.hours[h]
		fmt.Fprintf(&sb, " [%d(cur%+d):%v", h, int64(h)-int64(m.cur), r.n)
		if r.maybe {
			sb.WriteString(" deletable")
		}
		sb.WriteString("]")
	}
	return sb.String()
}

// ---- implementation driver ---------------------------------------------------

type devNull struct{}

func (devNull) Write(p []byte) (int, error) { return len(p), nil }

var discard = slog.New(slog.NewTextHandler(devNull{}, &slog.HandlerOptions{Level: slog.LevelError + 8}))

// sess is one real StatsCtx (plus its successors after restarts) on its own
// temp dir with its own virtual hour.
type sess struct {
	dir  string
	hour atomic.Uint32
	// armed: the hour turns right after the next reading of the clock.
	armed    atomic.Bool
	s        *stats.StatsCtx
	handlers map[string]http.HandlerFunc
	modified int
}

var sessSeq atomic.Int64

func newSess(tmp string) (x *sess, err error) {
	x = &sess{dir: filepath.Join(tmp, fmt.Sprintf("c09-%d", sessSeq.Add(1)))}
	if err = os.MkdirAll(x.dir, 0o755); err != nil {
		return nil, err
	}
	x.hour.Store(baseHour)
	ign, err := aghnet.NewIgnoreEngine(nil)
	if err != nil {
		return nil, err
	}
	err = x.open(stats.Config{Limit: time.Duration(initialLimit) * time.Hour, Enabled: true, Ignored: ign})
	return x, err
}

// open calls the real constructor with the persistent part of conf and
// registers the HTTP handlers as Start does (without the periodic flusher).
func (x *sess) open(conf stats.Config) (err error) {
	conf.Logger = discard
	conf.UnitID = func() uint32 {
		h := x.hour.Load()
		if x.armed.CompareAndSwap(true, false) {
			x.hour.Add(1)
		}
		return h
	}
	conf.ConfigModified = func() { x.modified++ }
	conf.ShouldCountClient = func([]string) bool { return true }
	conf.Filename = filepath.Join(x.dir, "stats.db")
	x.handlers = map[string]http.HandlerFunc{}
	conf.HTTPRegister = func(method, url string, h http.HandlerFunc) { x.handlers[method+" "+url] = h }
	x.s, err = stats.New(conf)
	if err != nil {
		return err
	}
	stats.VerifInitWeb(x.s)
	return nil
}

func (x *sess) close() {
	if x.s != nil {
		_ = x.s.Close()
	}
	_ = os.RemoveAll(x.dir)
}

func (x *sess) call(method, path, body string) (code int, out []byte) {
	h := x.handlers[method+" "+path]
	if h == nil {
		return -1, nil
	}
	r := httptest.NewRequest(method, path, strings.NewReader(body))
	w := httptest.NewRecorder()
	h(w, r)
	return w.Code, w.Body.Bytes()
}

// apply executes one operation on the real code.  m is the reference BEFORE
// the operation (needed for limit-relative advances).
func (x *sess) apply(o op, m *model) (err error) {
	switch o.Kind {
	case "upd":
		e := &stats.Entry{Client: o.Client, Domain: o.Domain, Result: stats.Result(o.Cat), ProcessingTime: 2 * time.Millisecond}
		if o.Cat == 4 {
			// Answered without measurable time (e.g. from a cache): the hour's
			// average processing time may then be zero.
			e.ProcessingTime = 0
		}
		if o.Ups {
			e.UpstreamStats = []*proxy.UpstreamStatistics{
				{Address: "1.1.1.1:53", QueryDuration: 3 * time.Millisecond},
				{Address: "8.8.8.8:53", IsCached: true},
			}
		}
		x.s.Update(e)
	case "adv":
		x.hour.Add(m.advBy(o.Adv))
	case "flush":
		if !stats.VerifFlush(x.s) {
			return fmt.Errorf("flush asks the periodic flusher to stop")
		}
	case "restart":
		// Clean shutdown; the configuration comes back the way home does it:
		// WriteDiskConfig -> file -> Config.
		var dc stats.Config
		x.s.WriteDiskConfig(&dc)
		if err = x.s.Close(); err != nil {
			return fmt.Errorf("Close: %w", err)
		}
		x.s = nil
		if err = x.open(stats.Config{Limit: dc.Limit, Enabled: dc.Enabled, Ignored: dc.Ignored}); err != nil {
			return fmt.Errorf("New after restart: %w", err)
		}
	case "limit":
		var code int
		var body []byte
		if o.Via == "legacy" {
			code, body = x.call(http.MethodPost, "/control/stats_config", fmt.Sprintf(`{"interval":%d}`, o.Hours/24))
		} else {
			ms := int64(o.Hours) * 3600 * 1000
			code, body = x.call(http.MethodPut, "/control/stats/config/update", fmt.Sprintf(`{"enabled":true,"interval":%d,"ignored":[]}`, ms))
		}
		if code != http.StatusOK {
			return fmt.Errorf("set limit %dh via %s: HTTP %d %s", o.Hours, o.Via, code, body)
		}
	case "disable":
		ms := int64(m.limit) * 3600 * 1000
		code, body := x.call(http.MethodPut, "/control/stats/config/update", fmt.Sprintf(`{"enabled":false,"interval":%d,"ignored":[]}`, ms))
		if code != http.StatusOK {
			return fmt.Errorf("disable: HTTP %d %s", code, body)
		}
	case "clear":
		code, body := x.call(http.MethodPost, "/control/stats_reset", "")
		if code != http.StatusOK {
			return fmt.Errorf("stats_reset: HTTP %d %s", code, body)
		}
	case "tick":
		x.armed.Store(true)
	case "read":
		// The read itself is done (and checked) by exec after every operation.
		if code, body := x.call(http.MethodGet, "/control/stats", ""); code != http.StatusOK {
			return fmt.Errorf("GET /control/stats: HTTP %d %s", code, body)
		}
	default:
		panic("op " + o.Kind)
	}
	return nil
}

// statsJSON is the part of GET /control/stats the property names.
type statsJSON struct {
	TimeUnits string `json:"time_units"`

	NumDNSQueries           *uint64 `json:"num_dns_queries"`
	NumBlockedFiltering     *uint64 `json:"num_blocked_filtering"`
	NumReplacedSafebrowsing *uint64 `json:"num_replaced_safebrowsing"`
	NumReplacedSafesearch   *uint64 `json:"num_replaced_safesearch"`
	NumReplacedParental     *uint64 `json:"num_replaced_parental"`

	DNSQueries           []uint64 `json:"dns_queries"`
	BlockedFiltering     []uint64 `json:"blocked_filtering"`
	ReplacedSafebrowsing []uint64 `json:"replaced_safebrowsing"`
	ReplacedParental     []uint64 `json:"replaced_parental"`
}

func (x *sess) read() (r *statsJSON, raw string, err error) {
	code, body := x.call(http.MethodGet, "/control/stats", "")
	if code != http.StatusOK {
		return nil, string(body), fmt.Errorf("HTTP %d", code)
	}
	r = &statsJSON{}
	if err = json.Unmarshal(body, r); err != nil {
		return nil, string(body), err
	}
	if r.NumDNSQueries == nil || r.NumBlockedFiltering == nil || r.NumReplacedSafebrowsing == nil || r.NumReplacedSafesearch == nil || r.NumReplacedParental == nil {
		return nil, string(body), fmt.Errorf("a num_* total is missing")
	}
	return r, string(body), nil
}

// ---- oracle ------------------------------------------------------------------

// The five totals, indexed like hourRec.n (0 = all queries, 1 unused).
var totalNames = [6]string{"num_dns_queries", "", "num_blocked_filtering", "num_replaced_safebrowsing", "num_replaced_safesearch", "num_replaced_parental"}

// The four series, by hourRec.n index.
var seriesNames = map[int]string{0: "dns_queries", 2: "blocked_filtering", 3: "replaced_safebrowsing", 5: "replaced_parental"}
var seriesIdx = []int{0, 2, 3, 5}

type readInfo struct {
	maybeHours int
	daysMode   bool
	// oldestCounted: the oldest hour of a window of >= 2 hours holds counted
	// queries that must be reported (the "limit-1 rollovers, then read" shape).
	oldestCounted bool
}

// checkRead compares one decoded API response with the reference.  It returns
// a violation key and description, or "", "".
func checkRead(m *model, r *statsJSON) (vkey, vdesc string, info readInfo) {
	got := [6]uint64{*r.NumDNSQueries, 0, *r.NumBlockedFiltering, *r.NumReplacedSafebrowsing, *r.NumReplacedSafesearch, *r.NumReplacedParental}
	series := map[int][]uint64{0: r.DNSQueries, 2: r.BlockedFiltering, 3: r.ReplacedSafebrowsing, 5: r.ReplacedParental}

	// Window: (cur-limit, cur].
	lo := m.cur - m.limit + 1
	var must, maybe []uint32
	for _, h := range m.sortedHours() {
		if h < lo || h > m.cur || m.hours[h].n[0] == 0 {
			continue
		}
		if m.hours[h].maybe {
			maybe = append(maybe, h)
		} else {
			must = append(must, h)
		}
	}
	info.maybeHours = len(maybe)
	info.oldestCounted = m.limit > 1 && len(must) > 0 && must[0] == lo

	var minT, maxT [6]uint64
	for _, h := range must {
		for i := range minT {
			minT[i] += m.hours[h].n[i]
			maxT[i] += m.hours[h].n[i]
		}
	}
	for _, h := range maybe {
		for i := range maxT {
			maxT[i] += m.hours[h].n[i]
		}
	}

	// 1. Every total inside its admissible range.
	for _, i := range []int{0, 2, 3, 4, 5} {
		if got[i] < minT[i] {
			return "total-lost:" + totalNames[i], fmt.Sprintf("%s = %d, but %d queries of that kind were counted in hours inside the window (%d, %d] that never left it", totalNames[i], got[i], minT[i], lo-1, m.cur), info
		}
		if got[i] > maxT[i] {
			return "total-extra:" + totalNames[i], fmt.Sprintf("%s = %d, but only %d queries of that kind were counted in hours inside the window (%d, %d]", totalNames[i], got[i], maxT[i], lo-1, m.cur), info
		}
	}

	// 2. The totals are jointly explained by keeping or dropping whole
	//    deletable hours.
	var present map[uint32]bool
	nsub := 1 << len(maybe)
	for sub := nsub - 1; sub >= 0 && present == nil; sub-- {
		exp := minT
		for k, h := range maybe {
			if sub&(1<<k) != 0 {
				for i := range exp {
					exp[i] += m.hours[h].n[i]
				}
			}
		}
		exp[1] = 0
		if exp == got {
			present = map[uint32]bool{}
			for _, h := range must {
				present[h] = true
			}
			for k, h := range maybe {
				if sub&(1<<k) != 0 {
					present[h] = true
				}
			}
		}
	}
	if present == nil {
		return "total-partial-hour", fmt.Sprintf("the totals %v (all, -, filtered, safebrowsing, safesearch, parental) are not the sum of whole counted hours: required hours %v, deletable hours %v", got, must, maybe), info
	}

	// 3. Series.
	switch r.TimeUnits {
	case "hours":
		for _, i := range seriesIdx {
			s := series[i]
			var sum uint64
			for _, v := range s {
				sum += v
			}
			if sum != got[i] {
				return "series-sum:" + seriesNames[i], fmt.Sprintf("time_units=hours: sum(%s)=%d but %s=%d", seriesNames[i], sum, totalNames[i], got[i]), info
			}
		}
		for _, i := range seriesIdx {
			if s := series[i]; uint32(len(s)) != m.limit {
				return "series-len:" + seriesNames[i], fmt.Sprintf("time_units=hours: %s has %d entries for a window of %d hours", seriesNames[i], len(s), m.limit), info
			}
		}
		// Per hour: the full count of the reference, or nothing at all for a
		// deletable hour (decided by dns_queries, the same for every series).
		var wantSafeSearch uint64
		for k := uint32(0); k < m.limit; k++ {
			h := lo + k
			rec := m.hours[h]
			if rec == nil {
				rec = &hourRec{}
			}
			gone := rec.maybe && rec.n[0] != 0 && r.DNSQueries[k] == 0
			if !gone {
				wantSafeSearch += rec.n[4]
			}
			for _, i := range seriesIdx {
				v, want := series[i][k], rec.n[i]
				if gone {
					want = 0
				}
				if v == want {
					continue
				}
				kind := "wrong"
				if v < want {
					kind = "lost"
				} else if want == 0 {
					kind = "extra"
				}
				return "series-hour-" + kind + ":" + seriesNames[i], fmt.Sprintf("%s[%d] (hour %d = current%+d) = %d, the reference counted %d in that hour (deletable=%v, dropped=%v)", seriesNames[i], k, h, int64(h)-int64(m.cur), v, rec.n[i], rec.maybe, gone), info
			}
		}
		if got[4] != wantSafeSearch {
			return "total-vs-hours:" + totalNames[4], fmt.Sprintf("%s = %d, but the hours reported in dns_queries hold %d safe-search queries", totalNames[4], got[4], wantSafeSearch), info
		}
	case "days":
		info.daysMode = true
		for _, i := range seriesIdx {
			var sum uint64
			for _, v := range series[i] {
				sum += v
			}
			if sum > got[i] {
				return "daily-exceeds:" + seriesNames[i], fmt.Sprintf("time_units=days: sum(%s)=%d exceeds %s=%d", seriesNames[i], sum, totalNames[i], got[i]), info
			}
		}
	default:
		return "time-units", fmt.Sprintf("time_units=%q", r.TimeUnits), info
	}
	return "", "", info
}

// checkDump is the invariant on the dumped implementation state: in every
// unit the total is the sum of its categories (each query in exactly one).
func checkDump(st *stats.VerifState) (vkey, vdesc string) {
	units := append([]stats.VerifUnit{}, st.Buckets...)
	if st.HasCurr {
		units = append(units, st.Curr)
	}
	for _, u := range units {
		if u.Bad {
			return "dump:undecodable-bucket", fmt.Sprintf("bucket %d cannot be decoded", u.ID)
		}
		var sum uint64
		for i, v := range u.NResult {
			if i == 0 && v != 0 {
				return "dump:category-zero", fmt.Sprintf("unit %d counts %d queries in result category 0", u.ID, v)
			}
			sum += v
		}
		if sum != u.NTotal {
			return "dump:total-vs-categories", fmt.Sprintf("unit %d: total %d but categories %v sum to %d", u.ID, u.NTotal, u.NResult, sum)
		}
	}
	return "", ""
}

func dumpKey(st *stats.VerifState) string {
	var sb strings.Builder
	fmt.Fprintf(&sb, "limit=%d en=%v db=%v|", st.LimitHours, st.Enabled, st.DBOpen)
	if st.HasCurr {
		fmt.Fprintf(&sb, "CUR %s ts=%d|", st.Curr, st.CurrTimeSum)
	} else {
		sb.WriteString("CUR nil|")
	}
	for _, b := range st.Buckets {
		fmt.Fprintf(&sb, "B %s|", b)
	}
	for _, o := range st.Other {
		fmt.Fprintf(&sb, "X %s|", o)
	}
	return sb.String()
}

// ---- one history ----------------------------------------------------------------

func jsonStr(v any) string {
	b, _ := json.Marshal(v)
	return string(b)
}

var bfsCtx *lib.Ctx

// exec replays hist on a fresh instance and checks the oracle after the last
// operation.  Safe for concurrent use: every call has its own directory,
// StatsCtx and virtual hour.
func exec(refs []opRef) lib.Step { return execOps(derefOps(refs)) }

func execOps(hist []op) (st lib.Step) {
	c := bfsCtx
	m := newModel()
	last := op{Kind: "init"}
	if len(hist) > 0 {
		last = hist[len(hist)-1]
	}
	var x *sess
	fail := func(key, format string, a ...any) lib.Step {
		st.VKey = key
		st.VDesc = fmt.Sprintf(format, a...) + "\nreference: " + m.String() + "\nhistory: " + jsonStr(hist)
		if x != nil && x.s != nil {
			if d, err := stats.VerifDump(x.s); err == nil {
				st.VDesc += "\nimplementation: " + dumpKey(&d)
			}
		}
		st.Key = ""
		return st
	}
	defer func() {
		if p := recover(); p != nil {
			buf := make([]byte, 4096)
			buf = buf[:runtime.Stack(buf, false)]
			st = fail("panic:"+last.Kind, "panic in the code under test during %s: %v\n%s", last.label(), p, buf)
		}
		if x != nil {
			func() {
				defer func() { _ = recover() }()
				x.close()
			}()
		}
	}()

	var err error
	x, err = newSess(c.TmpDir)
	if err != nil {
		return fail("new-failed", "stats.New on an empty directory: %v", err)
	}
	// restartedInHour: a restart happened inside an hour that holds counts and
	// that hour is still the current unit.
	restartedInHour := false
	for i, o := range hist {
		err = x.apply(o, m)
		m.apply(o)
		if now := x.hour.Load(); err == nil && now != m.clock {
			// The armed turn of the hour happened inside this operation.
			var implCur uint32
			hasCur := false
			if d, derr := stats.VerifDump(x.s); derr == nil && d.HasCurr {
				implCur, hasCur = d.Curr.ID, true
			}
			if vkey, vdesc := m.ticked(o, now, implCur, hasCur); vkey != "" {
				return fail(vkey, "%s", vdesc)
			}
			if i == len(hist)-1 {
				c.Count("hour_turned_inside_"+o.Kind, 1)
			}
		}
		switch o.Kind {
		case "restart":
			restartedInHour = m.hours[m.cur] != nil
		case "flush", "clear":
			restartedInHour = restartedInHour && m.hours[m.cur] != nil
		}
		if err != nil {
			return fail("op-failed:"+o.Kind, "operation %d (%s) failed: %v", i, o.label(), err)
		}
	}

	// Observation after the last operation.
	r, raw, err := x.read()
	if err != nil {
		return fail("read-failed", "GET /control/stats: %v: %s", err, raw)
	}
	c.Count("reads_checked", 1)
	vkey, vdesc, info := checkRead(m, r)
	if vkey != "" {
		return fail(vkey, "%s\nresponse: %s", vdesc, raw)
	}
	if info.maybeHours > 0 {
		c.Count("reads_with_maybe_hours", 1)
	}
	if info.daysMode {
		c.Count("reads_days_mode", 1)
	}
	if m.clock != m.cur {
		c.Count("reads_pending_rollover", 1)
		if restartedInHour {
			c.Count("reads_pending_rollover_after_restart_in_hour", 1)
		}
	}
	if info.oldestCounted {
		c.Count("reads_oldest_window_hour_counted", 1)
	}
	d, err := stats.VerifDump(x.s)
	if err != nil {
		return fail("dump-failed", "dumping the database: %v", err)
	}
	if vkey, vdesc = checkDump(&d); vkey != "" {
		return fail(vkey, "%s", vdesc)
	}
	if d.LimitHours != m.limit {
		return fail("limit-not-applied", "configured limit is %d h, the last accepted setting was %d h", d.LimitHours, m.limit)
	}

	st.Key = dumpKey(&d) + "#" + m.String()
	st.NonTrivial = m.counted() > 0 && last.Kind != "read"
	st.Outcome = fmt.Sprintf("%s|%s|total=%d|deletable=%d|pending=%v", last.label(), r.TimeUnits, *r.NumDNSQueries, info.maybeHours, m.clock != m.cur)
	return st
}

// phaseBFS is the sequential part of the check (E1).
func phaseBFS(c *lib.Ctx) {
	glog.SetOutput(io.Discard)
	glog.SetLevel(glog.ERROR)
	bfsCtx = c
	ops := alphabet(c.Quick())
	depth := 5
	if !c.Quick() {
		depth = 7
	}
	labels := make([]string, 0, len(ops))
	for _, o := range ops {
		l := o.label()
		if o.Kind == "upd" {
			l = fmt.Sprintf("upd(cat=%d,%s,%s,ups=%v)", o.Cat, o.Client, o.Domain, o.Ups)
		}
		labels = append(labels, l)
	}
	c.Note("bfs_alphabet", fmt.Sprintf("%d operations: %s; initial limit %d h, base hour %d", len(ops), strings.Join(labels, " "), initialLimit, baseHour))
	c.Note("bfs_depth_bound", fmt.Sprint(depth))
	opTable = ops
	refs := make([]opRef, len(ops))
	for i := range ops {
		refs[i] = opRef(i)
	}
	// Workers per shard = GOMAXPROCS the parent assigned (NumCPU/shards, >= 2).
	// Measured: 4 workers per shard double the CPU per execution (contention on
	// the process' mmap lock and in the runtime) for no gain in wall time.
	workers := runtime.GOMAXPROCS(0)
	b := &lib.BFS[opRef]{C: c, Ops: refs, Exec: exec, MaxDepth: depth, Workers: workers, Confirm: true}
	b.Run()
	// lib.BFS notes "closed" when a shard's frontier empties; here that only
	// means the shard's first operations were no-ops at the root.
	c.Note("bfs_closed", "not claimed: shards are first-operation subtrees; the state space is unbounded (hours only grow), the bound is the depth")
	if !c.Expired() {
		c.Count("bfs_shards_completed_all_depths", 1)
	}
}

func replayBFS(c *lib.Ctx, raw json.RawMessage) string {
	glog.SetOutput(io.Discard)
	glog.SetLevel(glog.ERROR)
	bfsCtx = c
	var hist []op
	if err := json.Unmarshal(raw, &hist); err != nil {
		return err.Error()
	}
	st := execOps(hist)
	if st.VKey != "" {
		return st.VKey + ": " + st.VDesc
	}
	return ""
}
