// C09 — statistics totals equal the queries counted inside the retention
// window (DESIGN.md §4 C09).
//
// Phase 1 (this file + bfs.go): E1 BFS over operation histories on the real
// stats.StatsCtx against a map hour -> counters reference.
//
// Phase 2 (concurrent schedules, E2) is NOT part of this file yet; run() has a
// marked place where phaseSchedules(c) is to be called, and evidence() has a
// marked place for its counters.
package main

import (
	"encoding/json"
	"time"

	"github.com/AdguardTeam/AdGuardHome/internal/verifx/lib"
)

// run is the body of every shard.  Phases run one after the other and record
// into the same lib.Ctx under their own counter prefixes.
func run(c *lib.Ctx) {
	// The schedules phase is small; run it first so that the BFS may use the
	// rest of the budget.
	phaseSchedules(c)
	phaseBFS(c)

	// ---- PHASE 2 HOOK (implemented in sched.go) ------------------------------------------------------
	// The concurrent part (updates vs. hourly flush vs. API reads under the E2
	// scheduler) goes here:
	//
	//	if !c.Expired() {
	//		phaseSchedules(c)
	//	}
	//
	// It can reuse newSess/(*sess).apply/(*sess).read and checkRead from
	// bfs.go; a replay case of that phase must carry "phase":"schedules" (see
	// replayCase) so that replay() can dispatch on it.
	// -------------------------------------------------------------------------
}

// replayCase is the envelope of a recorded case.  BFS violations are recorded
// by lib.BFS as a bare JSON array of operations; other phases must record an
// object with a "phase" field.
type replayCase struct {
	Phase string `json:"phase"`
}

func replay(c *lib.Ctx, raw json.RawMessage) string {
	if len(raw) > 0 && raw[0] == '[' {
		return replayBFS(c, raw)
	}
	var rc replayCase
	if err := json.Unmarshal(raw, &rc); err != nil {
		return "bad replay case: " + err.Error()
	}
	switch rc.Phase {
	case "schedules":
		return replaySchedules(c, raw)
	default:
		return "unknown replay phase " + rc.Phase
	}
}

func evidence(m *lib.Merged) map[string]any {
	ev := map[string]any{
		"states":                           m.Distinct["states"],
		"transitions":                      m.Counters["transitions"],
		"traces_validated_against_impl":    m.Counters["transitions"],
		"evaluations":                      m.Counters["transitions"],
		"api_reads_checked":                m.Counters["reads_checked"],
		"distinct_nontrivial":              m.Distinct["nontrivial"],
		"distinct_outcomes":                m.Distinct["outcomes"],
		"max_depth":                        m.Maxes["max_depth"],
		"bfs_shards_completed_depth_bound": m.Counters["bfs_shards_completed_all_depths"],
		"reads_with_deletable_hours":       m.Counters["reads_with_maybe_hours"],
		"reads_in_days_mode":               m.Counters["reads_days_mode"],
		"reads_before_pending_flush":       m.Counters["reads_pending_rollover"],
		"reads_before_pending_flush_after_restart_in_counted_hour": m.Counters["reads_pending_rollover_after_restart_in_hour"],
		"reads_with_counts_in_oldest_window_hour":                  m.Counters["reads_oldest_window_hour_counted"],
		"rule": "BFS over histories of update/advance-hours/hour-turns-inside-the-next-clock-reading-operation/flush/restart/set-limit/clear/read on the real stats.StatsCtx (bbolt file on tmpfs, UnitID = virtual hour, real HTTP handlers through httptest); a state is (dump of the current unit + every bbolt bucket + limit through a hook, reference map hour->counters, virtual hour); after EVERY transition GET /control/stats is decoded and compared with the reference: five totals, hourly series per hour and their sums, daily series <= totals, nothing outside (current-limit, current]. non-trivial = transition executed while at least one query is counted in the reference",
	}
	ev["reads_after_hour_turned_inside_restart"] = m.Counters["hour_turned_inside_restart"]
	ev["reads_after_hour_turned_inside_flush"] = m.Counters["hour_turned_inside_flush"]
	ev["reads_after_hour_turned_inside_reset"] = m.Counters["hour_turned_inside_clear"]
	ev["schedules_explored"] = m.Counters["sched_executions"]
	ev["scheduling_points"] = m.Counters["sched_points"]
	ev["sched_scenarios_completed_bound_0"] = m.Distinct["sched_scenarios_bound_0"]
	ev["sched_scenarios_completed_bound_1"] = m.Distinct["sched_scenarios_bound_1"]
	ev["sched_scenarios_completed_bound_2"] = m.Distinct["sched_scenarios_bound_2"]
	ev["sched_distinct_outcomes"] = m.Distinct["sched_outcomes"]
	ev["rule"] = ev["rule"].(string) + ". Schedules: 10 thread sets (Update, Update of another category, hour rollover + flush, GET /control/stats, reset) x {0, 2} earlier updates, all interleavings at the lock/atomic operations of stats and bbolt with <=1 (quick) / <=2 (thorough) preemptions; every response must be internally consistent (no category above the total, series sum to totals) and after quiescence every update is counted exactly once"
	return ev
}

func main() {
	lib.Main(&lib.Harness{
		Prop: "C09", Level: "model_checking",
		// Process shards (lib.BFS deals the first operation of the history to
		// shards), each with GOMAXPROCS/shards goroutine workers.  The
		// sequential phase does not use the process-global virtual clock (the
		// hour comes from Config.UnitID, a per-instance closure), so in-process
		// workers are safe; but bbolt's mmap/munmap per instance serialises on
		// the per-process mmap lock, so many processes are measurably faster
		// than one process with 16 workers even though shards re-explore
		// states that other shards also reach.
		Shards: func(string) int { return 16 },
		Budget: func(tier string) time.Duration {
			if tier == "thorough" {
				return 18 * time.Minute
			}
			return 4 * time.Minute
		},
		Run: run, Replay: replay, Evidence: evidence,
		Assumptions: []string{
			"the model's current hour advances when the rollover is processed (flush, New, clear), not when the clock alone advances: between a clock advance and the next flush (production: at most the flusher's 1 s sleep) updates land in, and the window is anchored at, the not-yet-flushed hour",
			"an hour that lay outside the then-current window (current-limit, current] at some moment since it was counted may have been deleted: 0 or the full count of that hour is accepted (all categories together), nothing in between",
			"no ignored names; top_* lists and avg_processing_time are not part of the property",
			"virtual hours only move forward; base hour 480013 (so hour ids never wrap below 0)",
		},
	})
}
