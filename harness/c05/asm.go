package main

import (
	"bytes"
	"context"
	"fmt"
	"github.com/AdguardTeam/AdGuardHome/internal/dhcpd"
	"github.com/insomniacslk/dhcp/dhcpv4"
	"net"
	"net/http"
	"net/http/httptest"
	"net/netip"
	"os"
	"path/filepath"
	"strings"
	"sync/atomic"
	"time"

	"github.com/AdguardTeam/AdGuardHome/internal/aghnet"
	"github.com/AdguardTeam/AdGuardHome/internal/client"
	"github.com/AdguardTeam/AdGuardHome/internal/dnsforward"
	"github.com/AdguardTeam/AdGuardHome/internal/filtering"
	"github.com/AdguardTeam/AdGuardHome/internal/filtering/safesearch"
	"github.com/AdguardTeam/AdGuardHome/internal/home"
	"github.com/AdguardTeam/AdGuardHome/internal/querylog"
	"github.com/AdguardTeam/AdGuardHome/internal/schedule"
	"github.com/AdguardTeam/AdGuardHome/internal/stats"
	"github.com/AdguardTeam/AdGuardHome/internal/verifx/srv"
	"github.com/AdguardTeam/AdGuardHome/internal/whois"
	"github.com/AdguardTeam/dnsproxy/proxy"
	"github.com/AdguardTeam/golibs/timeutil"
	"github.com/miekg/dns"
)

const serverName = "dns.example"

// asm is the full assembly wired the way package home wires it: the query
// log's FindClient and the statistics' ShouldCountClient go through a real
// clientsContainer whose client checker is the DNS server itself.
type asm struct {
	dhcp     *dhcpd.VerifC10Server
	dir      string
	server   *dnsforward.Server
	filter   *filtering.DNSFilter
	clients  *client.Storage
	vclients *home.VerifClients
	qlog     querylog.QueryLog
	stats    stats.Interface
	up       *srv.Upstream
	h        map[string]http.HandlerFunc
	hour     atomic.Uint32
	started  bool
}

func (a *asm) reg(method, url string, f http.HandlerFunc) { a.h[method+" "+url] = f }

// call invokes a registered admin handler like the web server would (minus the
// auth/gzip wrappers, which carry no shared DNS state).
func (a *asm) call(method, url, body string) (int, string) {
	f := a.h[method+" "+strings.SplitN(url, "?", 2)[0]]
	if f == nil {
		panic(&harnessErr{"no handler " + method + " " + url})
	}
	r := httptest.NewRequest(method, url, bytes.NewReader([]byte(body)))
	if body != "" {
		r.Header.Set("Content-Type", "application/json")
	}
	w := httptest.NewRecorder()
	f(w, r)
	return w.Code, w.Body.String()
}

type harnessErr struct{ msg string }

func (e *harnessErr) Error() string { return e.msg }

// configModified mimics home's configuration writer: it reads every
// component's disk configuration (taking their locks as config.write does).
func (a *asm) configModified() {
	if a.server != nil {
		c := dnsforward.Config{}
		a.server.WriteDiskConfig(&c)
	}
	if a.filter != nil {
		fc := filtering.Config{}
		a.filter.WriteDiskConfig(&fc)
	}
	if a.qlog != nil {
		qc := querylog.Config{}
		a.qlog.WriteDiskConfig(&qc)
	}
	if a.stats != nil {
		sc := stats.Config{}
		a.stats.WriteDiskConfig(&sc)
	}
	if a.clients != nil {
		a.clients.RangeByName(func(c *client.Persistent) bool { return true })
	}
}

// build assembles everything on a fresh directory.  startLoops starts the
// filter's own updates loop (free-running mode only).
func build(base string, startLoops bool) (a *asm, err error) {
	srv.Quiet()
	dir, err := os.MkdirTemp(base, "c05-")
	if err != nil {
		return nil, err
	}
	a = &asm{dir: dir, h: map[string]http.HandlerFunc{}}
	a.hour.Store(1000)
	ctx := context.Background()

	// Filter lists on disk.
	fdir := filepath.Join(dir, "data", "filters")
	srcDir := filepath.Join(dir, "lists")
	_ = os.MkdirAll(fdir, 0o755)
	_ = os.MkdirAll(srcDir, 0o755)
	_ = os.WriteFile(filepath.Join(srcDir, "block.txt"), []byte("||blocked.test^\n||bad-target.test^\n"), 0o644)
	_ = os.WriteFile(filepath.Join(srcDir, "extra.txt"), []byte("||extra.test^\n"), 0o644)
	_ = os.WriteFile(filepath.Join(srcDir, "allow.txt"), []byte("||allowed.test^\n"), 0o644)
	_ = os.WriteFile(filepath.Join(fdir, "1.txt"), []byte("||blocked.test^\n||bad-target.test^\n"), 0o644)
	_ = os.WriteFile(filepath.Join(fdir, "2.txt"), []byte("||allowed.test^\n"), 0o644)

	kid := &client.Persistent{Name: "kid", BlockedServices: &filtering.BlockedServices{Schedule: schedule.EmptyWeekly()}}
	kid.UID[0], kid.UID[15] = 1, 9
	if err = kid.SetIDs([]string{"10.0.0.1", "cid-a"}); err != nil {
		return nil, err
	}
	spare := &client.Persistent{Name: "spare", BlockedServices: &filtering.BlockedServices{Schedule: schedule.EmptyWeekly()}, Upstreams: []string{"9.9.9.9"}}
	spare.UID[0], spare.UID[15] = 2, 9
	if err = spare.SetIDs([]string{"10.9.9.9", "cid-spare"}); err != nil {
		return nil, err
	}
	// A real DHCP server (listeners not started) with one reservation carrying
	// a hostname for the address the unknown-client request comes from.
	a.dhcp, err = dhcpd.VerifC10New(dhcpd.VerifC10Conf{
		DataDir: filepath.Join(dir, "dhcp"), Gateway: netip.MustParseAddr("192.168.1.1"), Mask: netip.MustParseAddr("255.255.255.0"),
		RangeStart: netip.MustParseAddr("192.168.1.100"), RangeEnd: netip.MustParseAddr("192.168.1.120"), Self: netip.MustParseAddr("192.168.1.2"), LeaseSec: 3600,
		HTTPRegister: a.reg, ConfigModified: a.configModified,
	})
	if err != nil {
		return nil, fmt.Errorf("dhcp: %w", err)
	}
	if err = a.dhcp.AddStatic(net.HardwareAddr{2, 0, 0, 0, 0, 9}, netip.MustParseAddr("192.168.1.9"), "laptop"); err != nil {
		return nil, fmt.Errorf("dhcp reservation: %w", err)
	}
	// A client identified by the hardware address of the reservation: requests
	// from 192.168.1.9 are attributed to it through the DHCP lease.
	macdev := &client.Persistent{Name: "macdev", BlockedServices: &filtering.BlockedServices{Schedule: schedule.EmptyWeekly()}}
	macdev.UID[0], macdev.UID[15] = 3, 9
	if err = macdev.SetIDs([]string{"02:00:00:00:00:09"}); err != nil {
		return nil, err
	}
	a.clients, err = client.NewStorage(ctx, &client.StorageConfig{Logger: srv.Discard, Clock: timeutil.SystemClock{}, DHCP: a.dhcp, InitialClients: []*client.Persistent{kid, spare, macdev}, RuntimeSourceDHCP: true})
	if err != nil {
		return nil, err
	}

	anonymizer := aghnet.NewIPMut(nil)
	var vc *home.VerifClients
	qIgn, _ := aghnet.NewIgnoreEngine([]string{"ignored.test"})
	a.qlog, err = querylog.New(querylog.Config{
		Logger: srv.Discard, Ignored: qIgn, Anonymizer: anonymizer, ConfigModified: a.configModified, HTTPRegister: a.reg,
		FindClient: func(ids []string) (*querylog.Client, error) { return vc.FindMultiple(ids) },
		BaseDir:    dir, RotationIvl: 24 * time.Hour, MemSize: 100, Enabled: true, FileEnabled: true,
	})
	if err != nil {
		return nil, err
	}
	sIgn, _ := aghnet.NewIgnoreEngine([]string{"ignored.test"})
	a.stats, err = stats.New(stats.Config{
		Logger: srv.Discard, ConfigModified: a.configModified, HTTPRegister: a.reg, Ignored: sIgn,
		UnitID:            func() uint32 { return a.hour.Load() },
		ShouldCountClient: func(ids []string) bool { return vc.ShouldCount(ids) },
		Filename:          filepath.Join(dir, "stats.db"), Limit: 24 * time.Hour, Enabled: true,
	})
	if err != nil {
		return nil, err
	}
	querylog.VerifC08InitWeb(a.qlog)
	stats.VerifC08InitWeb(a.stats)

	fc := &filtering.Config{
		// Blocking mode "custom address": the answers carry configured addresses
		// which POST /control/dns_config (switching to another mode) takes away.
		BlockingMode: filtering.BlockingModeCustomIP, BlockingIPv4: netip.MustParseAddr(blockedV4), BlockingIPv6: netip.MustParseAddr("fd00::10"),
		BlockedResponseTTL: 10, ProtectionEnabled: true, FilteringEnabled: true,
		BlockedServices:      &filtering.BlockedServices{Schedule: schedule.EmptyWeekly(), IDs: []string{"9gag"}},
		ApplyClientFiltering: a.clients.ApplyClientFiltering,
		ConfigModified:       a.configModified, HTTPRegister: a.reg,
		Rewrites:                   []*filtering.LegacyRewrite{{Domain: "rw.test", Answer: "1.2.3.4"}},
		DataDir:                    filepath.Join(dir, "data"),
		SafeFSPatterns:             []string{filepath.Join(srcDir, "*")},
		FiltersUpdateIntervalHours: 24,
		UserRules:                  []string{"||custom-blocked.test^"},
		Filters:                    []filtering.FilterYAML{{Enabled: true, URL: filepath.Join(srcDir, "block.txt"), Name: "block", Filter: filtering.Filter{ID: 1}}},
		WhitelistFilters:           []filtering.FilterYAML{{Enabled: true, URL: filepath.Join(srcDir, "allow.txt"), Name: "allow", Filter: filtering.Filter{ID: 2}}},
		HTTPClient:                 &http.Client{Timeout: time.Second},
		// Global safe search is on, so that every A/AAAA/HTTPS request consults
		// the engine that PUT /control/safesearch/settings replaces.
		SafeSearchConf: filtering.SafeSearchConfig{Enabled: true, Bing: true, DuckDuckGo: true, Ecosia: true, Google: true, Pixabay: true, Yandex: true, YouTube: true},
	}
	fc.SafeSearch, err = safesearch.NewDefault(ctx, &safesearch.DefaultConfig{Logger: srv.Discard, ServicesConfig: fc.SafeSearchConf, CacheSize: 1 << 16, CacheTTL: time.Minute})
	if err != nil {
		return nil, err
	}
	a.filter, err = filtering.New(fc, nil)
	if err != nil {
		return nil, err
	}
	if startLoops {
		a.filter.Start() // registers handlers, starts the updates loop
		a.started = true
	} else {
		a.filter.VerifInitChan()
		a.filter.RegisterFilteringHandlers()
	}
	a.filter.EnableFilters(false)

	a.up = &srv.Upstream{Answer: func(req *dns.Msg) *dns.Msg {
		q := req.Question[0]
		if strings.HasPrefix(q.Name, "cn.") {
			resp := (&dns.Msg{}).SetReply(req)
			resp.Answer = []dns.RR{&dns.CNAME{Hdr: dns.RR_Header{Name: q.Name, Rrtype: dns.TypeCNAME, Class: dns.ClassINET, Ttl: 60}, Target: "bad-target.test."}}
			return resp
		}
		return srv.DefaultAnswer(req)
	}}
	dnsforward.VerifResetWeb()
	conf := dnsforward.ServerConfig{
		ConfigModified: a.configModified,
		HTTPRegister:   a.reg,
		TLSConf:        &dnsforward.TLSConfig{ServerName: serverName},
		Config: dnsforward.Config{
			ClientsContainer:  a.clients,
			UpstreamMode:      dnsforward.UpstreamModeLoadBalance,
			EDNSClientSubnet:  &dnsforward.EDNSClientSubnet{},
			DisallowedClients: []string{"6.6.6.6"},
			BlockedHosts:      []string{"version.bind"},
			UpstreamDNS:       []string{"8.8.8.8:53"},
			BootstrapDNS:      []string{"8.8.8.8:53"},
		},
		ServePlainDNS: true,
	}
	a.server, err = dnsforward.VerifNewServer(&dnsforward.VerifServerParams{Filter: a.filter, Stats: a.stats, QueryLog: a.qlog, Anonymizer: anonymizer, Conf: conf, Upstream: a.up, DHCP: a.dhcp.Iface()})
	if err != nil {
		return nil, err
	}
	vc = home.VerifNewClients(a.clients, a.server)
	a.vclients = vc
	a.h["GET /control/clients"] = vc.Handler("list")
	a.h["POST /control/clients/add"] = vc.Handler("add")
	a.h["POST /control/clients/update"] = vc.Handler("update")
	a.h["POST /control/clients/delete"] = vc.Handler("delete")
	a.h["POST /control/clients/search"] = vc.Handler("search")
	return a, nil
}

func (a *asm) close() {
	a.server.Close()
	a.filter.Close()
	_ = a.stats.Close()
	_ = a.clients.Shutdown(context.Background())
	_ = os.RemoveAll(a.dir)
}

// ---- request bodies --------------------------------------------------------------

type reqBody struct {
	name string
	run  func(a *asm) (resp *dns.Msg, req *dns.Msg, err error)
}

func mkReq(id uint16, name string, qt uint16) *dns.Msg {
	return &dns.Msg{MsgHdr: dns.MsgHdr{Id: id, RecursionDesired: true}, Question: []dns.Question{{Name: dns.Fqdn(name), Qtype: qt, Qclass: dns.ClassINET}}}
}

var reqSeq uint64 = 1 << 20

func handle(a *asm, pctx *proxy.DNSContext) (*dns.Msg, *dns.Msg, error) {
	berr, err := a.server.VerifHandle(pctx)
	if berr != nil {
		return nil, pctx.Req, fmt.Errorf("pre-request hook rejected an admitted request: %w", berr)
	}
	return pctx.Res, pctx.Req, err
}

var requests = []reqBody{
	{"R1-udp-blocked-name-persistent-client", func(a *asm) (*dns.Msg, *dns.Msg, error) {
		return handle(a, &proxy.DNSContext{Req: mkReq(11, "blocked.test", dns.TypeA), Proto: proxy.ProtoUDP, Addr: netip.MustParseAddrPort("10.0.0.1:1111"), RequestID: 11})
	}},
	{"R2-dot-clientid-response-filtered", func(a *asm) (*dns.Msg, *dns.Msg, error) {
		return handle(a, &proxy.DNSContext{Req: mkReq(12, "cn.example.test", dns.TypeA), Proto: proxy.ProtoTLS, Addr: netip.MustParseAddrPort("10.0.0.7:2222"), RequestID: 12,
			Conn: dnsforward.VerifTLSConn{ServerName: "cid-a." + serverName}})
	}},
	{"R3-udp-rewrite", func(a *asm) (*dns.Msg, *dns.Msg, error) {
		return handle(a, &proxy.DNSContext{Req: mkReq(13, "rw.test", dns.TypeA), Proto: proxy.ProtoUDP, Addr: netip.MustParseAddrPort("192.168.1.5:3333"), RequestID: 13})
	}},
	{"R4-udp-forwarded-unknown-client", func(a *asm) (*dns.Msg, *dns.Msg, error) {
		return handle(a, &proxy.DNSContext{Req: mkReq(14, "plain.example.org", dns.TypeAAAA), Proto: proxy.ProtoUDP, Addr: netip.MustParseAddrPort("192.168.1.9:4444"), RequestID: 14})
	}},
	{"R5-udp-dhcp-hostname-and-ptr", func(a *asm) (*dns.Msg, *dns.Msg, error) {
		// A name of the local domain and the reverse name of a leased address are
		// answered from the DHCP lease table.
		if resp, req, err := handle(a, &proxy.DNSContext{Req: mkReq(15, "laptop.lan", dns.TypeA), Proto: proxy.ProtoUDP, Addr: netip.MustParseAddrPort("192.168.1.30:5555"), RequestID: 15}); err != nil || resp == nil {
			return resp, req, err
		}
		return handle(a, &proxy.DNSContext{Req: mkReq(16, "9.1.168.192.in-addr.arpa", dns.TypePTR), Proto: proxy.ProtoUDP, Addr: netip.MustParseAddrPort("192.168.1.30:5556"), RequestID: 16})
	}},
}

// blockedV4 is the address a blocked A question is answered with.
const blockedV4 = "10.10.10.10"

// wellFormed checks the response the property promises.
func wellFormed(resp, req *dns.Msg, err error) string {
	if err != nil {
		return "request failed: " + err.Error()
	}
	if resp == nil {
		return "no response"
	}
	if resp.Id != req.Id {
		return fmt.Sprintf("response id %d != request id %d", resp.Id, req.Id)
	}
	if len(resp.Question) != 1 || !strings.EqualFold(resp.Question[0].Name, req.Question[0].Name) || resp.Question[0].Qtype != req.Question[0].Qtype {
		return "response does not echo the question"
	}
	if _, perr := resp.Pack(); perr != nil {
		return "response does not pack: " + perr.Error()
	}
	for _, rr := range resp.Answer {
		switch v := rr.(type) {
		case *dns.A:
			if len(v.A.To4()) != 4 {
				return "an A record of the response has no address: " + rr.String()
			}
		case *dns.AAAA:
			if len(v.AAAA) != 16 {
				return "an AAAA record of the response has no address: " + rr.String()
			}
		}
	}
	return ""
}

// ---- admin and background bodies -------------------------------------------------

type opBody struct {
	name string
	run  func(a *asm) string // returns a description if the operation itself misbehaved (5xx)
}

func expect2xx(code int, body, what string) string {
	if code >= 500 && strings.Contains(body, "already running") {
		// Two refreshes at once: the second is refused by design.
		return ""
	}
	if code >= 500 {
		return fmt.Sprintf("%s answered %d: %s", what, code, body)
	}
	return ""
}

func clientJSON(name string, ids ...string) string {
	return fmt.Sprintf(`{"name":%q,"ids":["%s"],"use_global_settings":false,"filtering_enabled":true,"use_global_blocked_services":false,"blocked_services":["9gag"],"blocked_services_schedule":{"time_zone":"UTC"},"tags":[],"upstreams":[],"ignore_querylog":false,"ignore_statistics":false}`, name, strings.Join(ids, `","`))
}

var operations = []opBody{
	{"clients-add", func(a *asm) string {
		c, b := a.call("POST", "/control/clients/add", clientJSON("new", "10.0.0.0/24", "cid-new"))
		return expect2xx(c, b, "clients/add")
	}},
	{"clients-update", func(a *asm) string {
		c, b := a.call("POST", "/control/clients/update", `{"name":"kid","data":`+clientJSON("kid2", "10.0.0.1", "cid-a", "10.0.0.7")+`}`)
		return expect2xx(c, b, "clients/update")
	}},
	{"clients-update-ids-a", func(a *asm) string {
		c, b := a.call("POST", "/control/clients/update", `{"name":"kid","data":`+clientJSON("kid", "10.0.0.2", "cid-a")+`}`)
		return expect2xx(c, b, "clients/update")
	}},
	{"clients-update-ids-b", func(a *asm) string {
		c, b := a.call("POST", "/control/clients/update", `{"name":"kid","data":`+clientJSON("kid", "10.0.0.3")+`}`)
		return expect2xx(c, b, "clients/update")
	}},
	{"clients-delete", func(a *asm) string {
		c, b := a.call("POST", "/control/clients/delete", `{"name":"kid"}`)
		return expect2xx(c, b, "clients/delete")
	}},
	{"clients-delete-other-client", func(a *asm) string {
		c, b := a.call("POST", "/control/clients/delete", `{"name":"spare"}`)
		return expect2xx(c, b, "clients/delete")
	}},
	{"clients-list", func(a *asm) string {
		c, b := a.call("GET", "/control/clients", "")
		return expect2xx(c, b, "clients")
	}},
	{"access-set", func(a *asm) string {
		c, b := a.call("POST", "/control/access/set", `{"allowed_clients":[],"disallowed_clients":["7.7.7.7","cid-blocked"],"blocked_hosts":["version.bind","id.server"]}`)
		return expect2xx(c, b, "access/set")
	}},
	{"filtering-set-rules", func(a *asm) string {
		c, b := a.call("POST", "/control/filtering/set_rules", `{"rules":["||custom-blocked.test^","||another.test^","@@||blocked.test^"]}`)
		return expect2xx(c, b, "filtering/set_rules")
	}},
	{"filtering-add-url", func(a *asm) string {
		c, b := a.call("POST", "/control/filtering/add_url", fmt.Sprintf(`{"name":"extra","url":%q,"whitelist":false}`, filepath.Join(a.dir, "lists", "extra.txt")))
		return expect2xx(c, b, "filtering/add_url")
	}},
	{"filtering-remove-url", func(a *asm) string {
		c, b := a.call("POST", "/control/filtering/remove_url", fmt.Sprintf(`{"url":%q,"whitelist":false}`, filepath.Join(a.dir, "lists", "block.txt")))
		return expect2xx(c, b, "filtering/remove_url")
	}},
	{"filtering-set-url", func(a *asm) string {
		u := filepath.Join(a.dir, "lists", "block.txt")
		c, b := a.call("POST", "/control/filtering/set_url", fmt.Sprintf(`{"url":%q,"whitelist":false,"data":{"name":"renamed","url":%q,"enabled":false}}`, u, u))
		return expect2xx(c, b, "filtering/set_url")
	}},
	{"filtering-config", func(a *asm) string {
		c, b := a.call("POST", "/control/filtering/config", `{"enabled":false,"interval":72}`)
		return expect2xx(c, b, "filtering/config")
	}},
	{"filtering-refresh", func(a *asm) string {
		_ = os.WriteFile(filepath.Join(a.dir, "lists", "block.txt"), []byte("||blocked.test^\n||bad-target.test^\n||fresh.test^\n"), 0o644)
		c, b := a.call("POST", "/control/filtering/refresh", `{"whitelist":false}`)
		return expect2xx(c, b, "filtering/refresh")
	}},
	{"rewrite-add", func(a *asm) string {
		c, b := a.call("POST", "/control/rewrite/add", `{"domain":"rw2.test","answer":"5.6.7.8"}`)
		return expect2xx(c, b, "rewrite/add")
	}},
	{"rewrite-delete", func(a *asm) string {
		c, b := a.call("POST", "/control/rewrite/delete", `{"domain":"rw.test","answer":"1.2.3.4"}`)
		return expect2xx(c, b, "rewrite/delete")
	}},
	{"rewrite-update", func(a *asm) string {
		c, b := a.call("PUT", "/control/rewrite/update", `{"target":{"domain":"rw.test","answer":"1.2.3.4"},"update":{"domain":"rw.test","answer":"4.3.2.1"}}`)
		return expect2xx(c, b, "rewrite/update")
	}},
	{"blocked-services-update", func(a *asm) string {
		c, b := a.call("PUT", "/control/blocked_services/update", `{"ids":["9gag","facebook"],"schedule":{"time_zone":"UTC"}}`)
		return expect2xx(c, b, "blocked_services/update")
	}},
	{"blocked-services-update-without-schedule", func(a *asm) string {
		c, b := a.call("PUT", "/control/blocked_services/update", `{"ids":["9gag"]}`)
		return expect2xx(c, b, "blocked_services/update")
	}},
	{"protection-pause", func(a *asm) string {
		c, b := a.call("POST", "/control/protection", `{"enabled":false,"duration":60000}`)
		return expect2xx(c, b, "protection")
	}},
	{"safesearch-settings", func(a *asm) string {
		c, b := a.call("PUT", "/control/safesearch/settings", `{"enabled":true,"bing":true,"duckduckgo":false,"ecosia":true,"google":true,"pixabay":true,"yandex":true,"youtube":false}`)
		return expect2xx(c, b, "safesearch/settings")
	}},
	{"querylog-config", func(a *asm) string {
		c, b := a.call("PUT", "/control/querylog/config/update", `{"enabled":true,"anonymize_client_ip":true,"interval":604800000,"ignored":["ignored.test","other-ignored.test"]}`)
		return expect2xx(c, b, "querylog/config/update")
	}},
	{"querylog-clear", func(a *asm) string {
		c, b := a.call("POST", "/control/querylog_clear", "")
		return expect2xx(c, b, "querylog_clear")
	}},
	{"querylog-read", func(a *asm) string {
		c, b := a.call("GET", "/control/querylog", "")
		return expect2xx(c, b, "querylog")
	}},
	{"stats-config", func(a *asm) string {
		c, b := a.call("PUT", "/control/stats/config/update", `{"enabled":true,"interval":172800000,"ignored":["ignored.test","x.test"]}`)
		return expect2xx(c, b, "stats/config/update")
	}},
	{"stats-reset", func(a *asm) string {
		c, b := a.call("POST", "/control/stats_reset", "")
		return expect2xx(c, b, "stats_reset")
	}},
	{"stats-read", func(a *asm) string {
		c, b := a.call("GET", "/control/stats", "")
		return expect2xx(c, b, "stats")
	}},
	{"dns-config", func(a *asm) string {
		c, b := a.call("POST", "/control/dns_config", `{"blocking_mode":"nxdomain","disable_ipv6":true,"dnssec_enabled":true,"blocked_response_ttl":30}`)
		return expect2xx(c, b, "dns_config")
	}},
	{"dhcp-add-static-lease", func(a *asm) string {
		c, b := a.call("POST", "/control/dhcp/add_static_lease", `{"mac":"02:00:00:00:00:21","ip":"192.168.1.21","hostname":"printer"}`)
		return expect2xx(c, b, "dhcp/add_static_lease")
	}},
	{"dhcp-remove-static-lease", func(a *asm) string {
		c, b := a.call("POST", "/control/dhcp/remove_static_lease", `{"mac":"02:00:00:00:00:09","ip":"192.168.1.9","hostname":"laptop"}`)
		return expect2xx(c, b, "dhcp/remove_static_lease")
	}},
	{"dhcp-update-static-lease", func(a *asm) string {
		c, b := a.call("POST", "/control/dhcp/update_static_lease", `{"mac":"02:00:00:00:00:09","ip":"192.168.1.10","hostname":"laptop2"}`)
		return expect2xx(c, b, "dhcp/update_static_lease")
	}},
	{"dhcp-status", func(a *asm) string {
		c, b := a.call("GET", "/control/dhcp/status", "")
		return expect2xx(c, b, "dhcp/status")
	}},
	// Background workers (bodies of the server's own goroutines).
	{"bg-dhcp-client-handshake", func(a *asm) string {
		// What the DHCP listener goroutine does for a new client: DISCOVER,
		// then REQUEST of the offered address.
		mac := net.HardwareAddr{2, 0, 0, 0, 0, 0x31}
		disc, err := dhcpv4.NewDiscovery(mac, dhcpv4.WithOption(dhcpv4.OptHostName("phone")))
		if err != nil {
			return ""
		}
		_, offer, err := a.dhcp.Handle(disc)
		if err != nil || offer == nil || offer.YourIPAddr == nil || offer.YourIPAddr.IsUnspecified() {
			return ""
		}
		req, err := dhcpv4.New(dhcpv4.WithHwAddr(mac), dhcpv4.WithMessageType(dhcpv4.MessageTypeRequest), dhcpv4.WithOption(dhcpv4.OptHostName("phone")),
			dhcpv4.WithOption(dhcpv4.OptRequestedIPAddress(offer.YourIPAddr)), dhcpv4.WithOption(dhcpv4.OptServerIdentifier(net.IPv4(192, 168, 1, 2))))
		if err != nil {
			return ""
		}
		_, _, _ = a.dhcp.Handle(req)
		return ""
	}},
	{"bg-filter-refresh", func(a *asm) string {
		_ = os.WriteFile(filepath.Join(a.dir, "lists", "block.txt"), []byte("||blocked.test^\n||bad-target.test^\n||periodic.test^\n"), 0o644)
		a.filter.VerifTryRefresh(true, true, true)
		return ""
	}},
	{"bg-stats-flush-hour-rollover", func(a *asm) string {
		a.hour.Add(1)
		stats.VerifC05Flush(a.stats)
		return ""
	}},
	{"bg-querylog-flush", func(a *asm) string {
		_ = querylog.VerifC08Flush(a.qlog)
		return ""
	}},
	{"bg-querylog-flush-after-buffer-filled", func(a *asm) string {
		querylog.VerifC05FlushAfterFill(a.qlog)
		return ""
	}},
	{"bg-querylog-rotate", func(a *asm) string {
		querylog.VerifC05Rotate(a.qlog)
		_ = querylog.VerifC05ForceRotate(a.qlog)
		return ""
	}},
	{"bg-address-update-rdns-whois", func(a *asm) string {
		a.clients.UpdateAddress(context.Background(), netip.MustParseAddr("192.168.1.9"), "rdns-name.example", &whois.Info{City: "City", Country: "CC", Orgname: "Org"})
		a.clients.UpdateAddress(context.Background(), netip.MustParseAddr("10.0.0.7"), "other.example", nil)
		return ""
	}},
	{"bg-dhcp-runtime-update", func(a *asm) string {
		a.clients.UpdateDHCP(context.Background())
		return ""
	}},
	{"bg-protection-reenable", func(a *asm) string {
		// A timed pause that has run out; the first request afterwards
		// starts this worker.
		if !a.server.VerifClaimProtectionUpdate() {
			return ""
		}
		past := time.Now().Add(-time.Minute)
		a.filter.SetProtectionStatus(false, &past)
		a.server.VerifEnableProtectionAfterPause()
		return ""
	}},
}

// clientIndexConsistent checks the persistent-client registry after
// quiescence: every index entry belongs to an existing client that owns that
// identifier, and every identifier of every client is indexed exactly once.
func clientIndexConsistent(st *client.Storage) string {
	cs, es := client.VerifDump(st)
	norm := func(s string) string { return strings.ToLower(strings.ReplaceAll(s, ":", "")) }
	owns := map[string]map[string]bool{}
	total := 0
	for _, c := range cs {
		m := map[string]bool{}
		for _, id := range c.IDs() {
			m[norm(id)] = true
			total++
		}
		owns[c.Name] = m
	}
	n := 0
	for _, e := range es {
		if e.Kind == "name" {
			if _, ok := owns[e.Owner]; !ok || e.Owner != e.ID {
				return fmt.Sprintf("name index maps %q to %q, which is not a stored client of that name", e.ID, e.Owner)
			}
			continue
		}
		n++
		m, ok := owns[e.Owner]
		if !ok {
			return fmt.Sprintf("index entry %s:%s belongs to %q, which is not a stored client", e.Kind, e.ID, e.Owner)
		}
		if !m[norm(e.ID)] {
			return fmt.Sprintf("index entry %s:%s points to client %q, which does not own that identifier (its identifiers: %v)", e.Kind, e.ID, e.Owner, m)
		}
	}
	if n != total {
		return fmt.Sprintf("%d identifier index entries for %d identifiers of the stored clients: entries %v", n, total, es)
	}
	return ""
}
