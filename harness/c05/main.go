// C05 — reconfiguring the live server never races with, crashes or stalls DNS
// serving.  Two engines over the same scenario bodies (DESIGN.md §2.3, §2.4, §4 C05):
//
//	E2: preemption-bounded exhaustive exploration of the interleavings of a
//	    request body with an admin/background body under a cooperative
//	    scheduler hooked into sync/atomic (deadlock, livelock, panic,
//	    well-formed response);
//	E4: the same pairs run free under the Go race detector in a -race build
//	    (data races are invisible to E2, whose hand-offs are happens-before
//	    edges).
package main

import (
	"bufio"
	"encoding/json"
	"fmt"
	"os"
	"os/exec"
	"path/filepath"
	"regexp"
	"runtime"
	"runtime/debug"
	"sort"
	"strconv"
	"strings"
	"sync"
	"time"

	"context"
	"net/netip"

	"github.com/AdguardTeam/AdGuardHome/internal/client"
	"github.com/AdguardTeam/AdGuardHome/internal/filtering"
	"github.com/AdguardTeam/AdGuardHome/internal/querylog"
	"github.com/AdguardTeam/AdGuardHome/internal/verifx/lib"
	"github.com/AdguardTeam/AdGuardHome/internal/verifx/srv"
	"github.com/AdguardTeam/AdGuardHome/internal/whois"
	vsync "github.com/AdguardTeam/AdGuardHome/verifx/vsync"
	vtime "github.com/AdguardTeam/AdGuardHome/verifx/vtime"
	"github.com/AdguardTeam/dnsproxy/proxy"
	"github.com/miekg/dns"
)

type caseC struct {
	Engine   string `json:"engine"`
	Scenario string `json:"scenario"`
	Index    int    `json:"scenario_index"`
	Quick    bool   `json:"quick_matrix"`
	Order    int    `json:"start_order,omitempty"`
	Bound    int    `json:"preemption_bound,omitempty"`
	Schedule []int  `json:"schedule,omitempty"`
	Detail   string `json:"detail,omitempty"`
}

func jsonStr(v any) string { b, _ := json.Marshal(v); return string(b) }

// ---- E4 child: one cell under the race detector ----------------------------------

type cellResult struct {
	Panics    []string `json:"panics"`
	Stalls    []string `json:"stalls"`
	Malformed []string `json:"malformed"`
	OpErrors  []string `json:"op_errors"`
	Runs      int      `json:"runs"`
}

// reqRepeats: how often the request body of a race cell sends its request.
const reqRepeats = 12

func runCellFree(sc scenario, order, reps int, base string) (res cellResult) {
	for rep := 0; rep < reps; rep++ {
		a, err := build(base, true)
		if err != nil {
			res.OpErrors = append(res.OpErrors, "assembly: "+err.Error())
			return res
		}
		var wg sync.WaitGroup
		start := make(chan struct{})
		var mu sync.Mutex
		// Start skews: the non-first bodies are delayed by 0, 0.3 ms, 3 ms, then
		// by growing odd amounts, so that both "request first" and "operation
		// first" happen with overlapping and with clearly separated bodies
		// (sleeping creates no happens-before edge).
		skews := []time.Duration{0, 300 * time.Microsecond, 3 * time.Millisecond}
		skew := time.Duration(rep*157) * time.Microsecond
		if rep < len(skews) {
			skew = skews[rep]
		}
		body := func(first bool, f func()) {
			defer wg.Done()
			defer func() {
				if r := recover(); r != nil {
					mu.Lock()
					res.Panics = append(res.Panics, fmt.Sprintf("%v\n%s", r, debug.Stack()))
					mu.Unlock()
				}
			}()
			<-start
			if !first {
				time.Sleep(skew)
			}
			f()
		}
		var bodies []func()
		if sc.req >= 0 {
			ri := sc.req
			// The request is sent several times back to back: an access that has left
			// its lock is reported only if the writer falls between two lock operations
			// of the request, and every repetition offers that window anew at another
			// offset into the operation.
			bodies = append(bodies, func() {
				for k := 0; k < reqRepeats; k++ {
					resp, req, err := requests[ri].run(a)
					if msg := wellFormed(resp, req, err); msg != "" {
						mu.Lock()
						res.Malformed = append(res.Malformed, msg)
						mu.Unlock()
						return
					}
				}
			})
		}
		for _, oi := range sc.ops {
			oi := oi
			bodies = append(bodies, func() {
				if msg := operations[oi].run(a); msg != "" {
					mu.Lock()
					res.OpErrors = append(res.OpErrors, msg)
					mu.Unlock()
				}
			})
		}
		wg.Add(len(bodies))
		for i, b := range bodies {
			go body(i == order%len(bodies), b)
		}
		close(start)
		done := make(chan struct{})
		go func() { wg.Wait(); close(done) }()
		select {
		case <-done:
		case <-time.After(30 * time.Second):
			res.Stalls = append(res.Stalls, "the concurrent bodies did not all finish within 30 s")
			return res // leave the stuck assembly behind
		}
		res.Runs++
		a.close()
	}
	return res
}

func childMain(spec string) {
	var si, order, reps, quick int
	fmt.Sscanf(spec, "%d,%d,%d,%d", &si, &order, &reps, &quick)
	base := os.Getenv("VERIF_C05_TMP")
	scs := scenarios(quick == 1)
	res := runCellFree(scs[si], order, reps, base)
	_ = json.NewEncoder(os.Stdout).Encode(&res)
}

// ---- race report parsing -----------------------------------------------------------

var frameRe = regexp.MustCompile(`^\s{2}(\S+)\(`)

type raceReport struct {
	key  string
	text string
}

// parseRaces splits GORACE log text into reports keyed by the unordered pair of
// the first AdGuardHome frames of the two conflicting accesses.
func parseRaces(text string) (out []raceReport) {
	blocks := strings.Split(text, "==================")
	for _, b := range blocks {
		if !strings.Contains(b, "WARNING: DATA RACE") {
			continue
		}
		var stacks [][]string
		var cur []string
		inAccess := false
		sc := bufio.NewScanner(strings.NewReader(b))
		sc.Buffer(make([]byte, 1<<20), 1<<20)
		for sc.Scan() {
			l := sc.Text()
			switch {
			case strings.HasPrefix(l, "Read at") || strings.HasPrefix(l, "Write at") || strings.HasPrefix(l, "Previous read at") || strings.HasPrefix(l, "Previous write at") ||
				strings.HasPrefix(l, "Atomic") || strings.HasPrefix(l, "Previous atomic"):
				if cur != nil {
					stacks = append(stacks, cur)
				}
				cur, inAccess = []string{}, true
			case strings.HasPrefix(l, "Goroutine "):
				if cur != nil {
					stacks = append(stacks, cur)
					cur = nil
				}
				inAccess = false
			default:
				if inAccess {
					if m := frameRe.FindStringSubmatch(l); m != nil {
						cur = append(cur, m[1])
					}
				}
			}
		}
		if cur != nil {
			stacks = append(stacks, cur)
		}
		var sites []string
		for _, st := range stacks {
			site := ""
			for _, f := range st {
				if strings.Contains(f, "AdGuardHome/internal/") && !strings.Contains(f, "/verifx/") {
					site = f[strings.Index(f, "internal/"):]
					break
				}
			}
			if site == "" && len(st) > 0 {
				site = st[0]
			}
			// Strip closure suffixes and generic instantiation noise.
			site = regexp.MustCompile(`\.func\d+(\.\d+)*$`).ReplaceAllString(site, "")
			site = strings.ReplaceAll(site, "[...]", "")
			sites = append(sites, site)
		}
		if len(sites) > 2 {
			sites = sites[:2]
		}
		sort.Strings(sites)
		out = append(out, raceReport{key: strings.Join(sites, " <-> "), text: b})
	}
	return out
}

// ---- scenarios ------------------------------------------------------------------------

// scenario is a set of bodies to run concurrently: request index (or -1) and
// operation indexes.
type scenario struct {
	req int
	ops []int
}

func (sc scenario) name() string {
	var parts []string
	if sc.req >= 0 {
		parts = append(parts, requests[sc.req].name)
	}
	for _, o := range sc.ops {
		parts = append(parts, operations[o].name)
	}
	return strings.Join(parts, " || ")
}

func isBG(i int) bool { return strings.HasPrefix(operations[i].name, "bg-") }

// scenarios enumerates the matrix: every request x every operation; every
// background body x every admin body (no request); in thorough additionally
// request x background x admin triples for the first request body.
func scenarios(quick bool) (out []scenario) {
	for ri := range requests {
		for oi := range operations {
			out = append(out, scenario{ri, []int{oi}})
		}
	}
	for b := range operations {
		if !isBG(b) {
			continue
		}
		for ad := range operations {
			if isBG(ad) {
				continue
			}
			out = append(out, scenario{-1, []int{b, ad}})
		}
	}
	// Three parties without a request: the filter refresh worker, an operation
	// that writes the filter lists, and one that saves the configuration (lock
	// order between the filter-list lock and the configuration lock).
	opIdx := func(name string) int {
		for i := range operations {
			if operations[i].name == name {
				return i
			}
		}
		panic("no operation " + name)
	}
	for _, w := range []string{"filtering-add-url", "filtering-set-url", "filtering-config"} {
		for _, sv := range []string{"rewrite-add", "filtering-set-rules"} {
			out = append(out, scenario{-1, []int{opIdx("bg-filter-refresh"), opIdx(w), opIdx(sv)}})
		}
	}
	// Two administrative operations on the same object.
	for _, pr := range [][2]string{{"clients-update-ids-a", "clients-update-ids-b"}, {"clients-update-ids-a", "clients-update"}, {"clients-update-ids-b", "clients-delete"}, {"clients-add", "clients-update-ids-a"},
		{"querylog-read", "querylog-config"}, {"querylog-read", "querylog-clear"}, {"stats-read", "stats-config"}, {"stats-read", "stats-reset"}} {
		out = append(out, scenario{-1, []int{opIdx(pr[0]), opIdx(pr[1])}})
	}
	if !quick {
		for b := range operations {
			if !isBG(b) {
				continue
			}
			for ad := range operations {
				if !isBG(ad) {
					out = append(out, scenario{0, []int{b, ad}})
				}
			}
		}
	}
	return out
}

// neutralOps do not change whether blocked.test (in the enabled block list) is
// blocked for the client of request R1.
var neutralOps = map[string]bool{
	"clients-list": true, "clients-add": true, "clients-delete-other-client": true, "access-set": true,
	"filtering-add-url": true, "filtering-refresh": true, "rewrite-add": true, "rewrite-delete": true, "rewrite-update": true,
	"blocked-services-update": true, "blocked-services-update-without-schedule": true, "safesearch-settings": true,
	"querylog-config": true, "querylog-clear": true, "querylog-read": true, "stats-config": true, "stats-reset": true, "stats-read": true,
	"dns-config": true, "dhcp-add-static-lease": true, "dhcp-remove-static-lease": true, "dhcp-update-static-lease": true, "dhcp-status": true,
	"bg-filter-refresh": true, "bg-stats-flush-hour-rollover": true, "bg-querylog-flush": true, "bg-querylog-flush-after-buffer-filled": true, "bg-querylog-rotate": true,
	"bg-address-update-rdns-whois": true, "bg-dhcp-runtime-update": true, "bg-dhcp-client-handshake": true,
}

func neutralForBlockedName(ops []int) bool {
	for _, oi := range ops {
		if !neutralOps[operations[oi].name] {
			return false
		}
	}
	return len(ops) > 0
}

// ---- phases ---------------------------------------------------------------------------

func phaseRace(c *lib.Ctx) {
	bin := os.Getenv("VERIF_RACE_BIN")
	if bin == "" {
		c.EngineError("race binary not provided (VERIF_RACE_BIN)")
		return
	}
	reps := 3
	q := 1
	if !c.Quick() {
		reps, q = 10, 0
	}
	scs := scenarios(c.Quick())
	idx := 0
	for si, sc := range scs {
		for order := 0; order < 2; order++ {
			idx++
			if !c.Mine(idx) {
				continue
			}
			if c.Expired() {
				return
			}
			logBase := filepath.Join(c.TmpDir, fmt.Sprintf("race-%d-%d", si, order))
			cmd := exec.Command(bin)
			cmd.Env = append(os.Environ(), fmt.Sprintf("VERIF_C05_CELL=%d,%d,%d,%d", si, order, reps, q), "VERIF_C05_TMP="+c.TmpDir,
				"GORACE=halt_on_error=0 log_path="+logBase+" history_size=3", "GOMAXPROCS=4")
			outB, err := cmd.Output()
			cs := caseC{Engine: "E4-race", Scenario: sc.name(), Order: order}
			var res cellResult
			if jerr := json.Unmarshal(outB, &res); jerr != nil {
				msg := fmt.Sprintf("%v / %v / %s", err, jerr, tail(string(outB), 2000))
				if strings.Contains(msg, "fatal error") || strings.Contains(msg, "panic") {
					cs.Detail = msg
					c.Violation("crash:"+sc.name(), "the process crashed while running concurrently: "+sc.name()+":\n"+msg, cs)
				} else {
					c.EngineError("race child failed: " + msg)
				}
				continue
			}
			c.Count("race_runs", int64(res.Runs))
			c.Count("evals", int64(res.Runs))
			c.Distinct("race_cells", fmt.Sprintf("%d|%d", si, order))
			c.Distinct("nontrivial", fmt.Sprintf("race|%d|%d", si, order))
			for _, p := range res.Panics {
				cs.Detail = p
				c.Violation("panic:"+panicSite(p), fmt.Sprintf("panic while running concurrently: %s\n%s", sc.name(), tail(p, 1500)), cs)
			}
			for _, st := range res.Stalls {
				cs.Detail = st
				c.Violation("stall:"+sc.name(), st+": "+sc.name(), cs)
			}
			for _, m := range res.Malformed {
				cs.Detail = m
				c.Violation("malformed-response:"+operations[sc.ops[len(sc.ops)-1]].name, fmt.Sprintf("%s: %s", sc.name(), m), cs)
			}
			for _, m := range res.OpErrors {
				cs.Detail = m
				c.Violation("operation-failed:"+opNames(sc), m, cs)
			}
			files, _ := filepath.Glob(logBase + ".*")
			for _, f := range files {
				data, _ := os.ReadFile(f)
				for _, rr := range parseRaces(string(data)) {
					cs.Detail = tail(rr.text, 3000)
					c.Count("race_reports", 1)
					c.Violation("race:"+rr.key, fmt.Sprintf("data race (first seen while running concurrently: %s; start order %d):\n%s", sc.name(), order, tail(rr.text, 2500)), cs)
				}
				_ = os.Remove(f)
			}
			if idx%61 == 0 {
				c.Sample(map[string]any{"engine": "E4-race", "scenario": sc.name(), "start_order": order, "runs": res.Runs})
			}
		}
	}
}

func opNames(sc scenario) string {
	var n []string
	for _, o := range sc.ops {
		n = append(n, operations[o].name)
	}
	return strings.Join(n, "+")
}

func tail(s string, n int) string {
	if len(s) > n {
		return s[:n] + "\n...(truncated)"
	}
	return s
}

func panicSite(st string) string {
	for _, l := range strings.Split(st, "\n") {
		if i := strings.Index(l, "/internal/"); i >= 0 && strings.Contains(l, ".go:") && !strings.Contains(l, "/verifx/") {
			s := strings.Fields(l[i+1:])[0]
			return s
		}
	}
	return "unknown"
}

// mkBody builds the scheduler body of a scenario on a fresh assembly.
func mkBody(c *lib.Ctx, sc scenario) func() vsync.Body {
	return func() vsync.Body {
		a, err := build(c.TmpDir, false)
		if err != nil {
			panic(&harnessErr{"assembly: " + err.Error()})
		}
		// Start from a state in which something has been served already: the
		// query-log buffer, the statistics unit and the caches are not empty.
		for ri := range requests {
			if ri < 2 && os.Getenv("C05_NO_WARMUP") == "" {
				_, _, _ = requests[ri].run(a)
				if ri == 0 {
					// One record is in the query-log file, the next in the buffer.
					_ = querylog.VerifC08Flush(a.qlog)
				}
			}
		}
		a.up.Reset()
		var resp, req *dns.Msg
		var rerr error
		opMsgs := make([]string, len(sc.ops))
		var names []string
		var threads []func()
		if sc.req >= 0 {
			names = append(names, requests[sc.req].name)
			threads = append(threads, func() { resp, req, rerr = requests[sc.req].run(a) })
		}
		for i, oi := range sc.ops {
			i, oi := i, oi
			names = append(names, operations[oi].name)
			threads = append(threads, func() { opMsgs[i] = operations[oi].run(a) })
		}
		return vsync.Body{
			Names: names, Threads: threads,
			Final: func() string {
				if sc.req >= 0 {
					if m := wellFormed(resp, req, rerr); m != "" {
						return "malformed-response: " + m
					}
				}
				for _, m := range opMsgs {
					if m != "" {
						return "operation-failed: " + m
					}
				}
				if sc.req == 0 && neutralForBlockedName(sc.ops) {
					// The name is blocked before and after every one of these
					// operations, so it is blocked in every serial order: the request
					// must not have reached the upstream, whatever the interleaving.
					for _, q := range a.up.Reset() {
						if strings.HasPrefix(strings.ToLower(q), "blocked.test.") {
							return "blocked-name-forwarded-during-reconfiguration: the request for blocked.test (blocked before and after " + opNames(sc) + ") was sent to the upstream"
						}
					}
				}
				if m := clientIndexConsistent(a.clients); m != "" {
					return "client-registry-inconsistent: " + m
				}
				// Nothing runs any more: a flush still marked as pending will never
				// happen, and no later query starts another one.
				if querylog.VerifC07Wrap(a.qlog).FlushPending() {
					return "querylog-flush-pending-for-ever: all workers have finished but the query log still marks a flush as pending; recorded queries will never be written to the file again"
				}
				// A queued asynchronous engine rebuild must still work afterwards.
				if _, err := a.filter.VerifRunPendingInit(); err != nil {
					return "engine-rebuild-failed: " + err.Error()
				}
				return ""
			},
			Cleanup: func() { a.close() },
		}
	}
}

// phaseSched explores the interleavings of every scenario.
func phaseSched(c *lib.Ctx) {
	bounds := []int{0, 1}
	maxExec := 3000
	if !c.Quick() {
		bounds = []int{0, 1, 2}
		maxExec = 40000
	}
	scs := scenarios(c.Quick())
	for si, sc := range scs {
		if !c.Mine(si) {
			continue
		}
		for _, bound := range bounds {
			if c.Expired() {
				return
			}
			// Request x operation pairs also get a scheduling point after every lock
			// release, so that a request can run between an operation's unlock and
			// the unsynchronised statements that follow it (state published before
			// it is complete).
			st := vsync.Explore(mkBody(c, sc), vsync.Options{Bound: bound, MaxExecutions: maxExec, Deadline: c.Deadline, StuckTimeout: 120 * time.Second, Trace: true,
				ReleasePoints: sc.req >= 0 && len(sc.ops) == 1}, nil)
			c.Count("sched_executions", int64(st.Executions))
			c.Count("evals", int64(st.Executions))
			c.Count("sched_points", st.Points)
			c.Max("max_points_per_execution", int64(st.MaxPoints))
			if !st.Exhaustive {
				c.NotExhaustive(fmt.Sprintf("scenario %s: bound %d stopped after %d executions (cap %d or deadline)", sc.name(), bound, st.Executions, maxExec))
			} else {
				c.Distinct("sched_scenarios_bound_"+strconv.Itoa(bound), fmt.Sprint(si))
			}
			for _, e := range st.EngineErrs {
				c.EngineError(fmt.Sprintf("scenario %s: %s", sc.name(), e))
			}
			for o := range st.Outcomes {
				c.Distinct("outcomes", fmt.Sprintf("%d|%s", si, o))
			}
			c.Distinct("nontrivial", fmt.Sprintf("sched|%d|%d", si, bound))
			for _, v := range st.Violations {
				cs := caseC{Engine: "E2-sched", Scenario: sc.name(), Index: si, Quick: c.Quick(), Bound: bound, Schedule: v.Schedule, Detail: tail(v.Detail, 3000)}
				key := v.Kind + ":" + sc.name()
				switch v.Kind {
				case "panic":
					key = "panic:" + panicSite(v.Detail)
				case "deadlock":
					key = "deadlock:" + deadlockSig(v.Detail)
				case "final":
					key = "final:" + strings.SplitN(v.Detail, ":", 2)[0] + ":" + opNames(sc)
				}
				c.Violation(key, fmt.Sprintf("%s while interleaving %s (preemption bound %d, schedule %v):\n%s", v.Kind, sc.name(), bound, v.Schedule, tail(v.Detail, 2500)), cs)
			}
			if len(st.SampleSched) > 0 && si%23 == 0 {
				c.Sample(map[string]any{"engine": "E2-sched", "scenario": sc.name(), "bound": bound, "executions": st.Executions, "schedule": st.SampleSched[len(st.SampleSched)-1]})
			}
			if len(st.Violations) > 0 {
				break // deeper bounds only repeat it
			}
		}
	}
}

var siteRe = regexp.MustCompile(`(\S+\.go:\d+)`)

func deadlockSig(detail string) string {
	m := siteRe.FindAllStringSubmatch(detail, -1)
	var s []string
	for _, x := range m {
		s = append(s, x[1])
	}
	sort.Strings(s)
	if len(s) == 0 {
		return "unknown"
	}
	return strings.Join(s, "+")
}

// phaseQueue: configuration changes that arrive while the engine initialiser is
// busy are queued; after the queue has been drained the engines must reflect
// the LAST configuration (deterministic histories, no scheduler).
func phaseQueue(c *lib.Ctx) {
	type qcase struct {
		Engine  string   `json:"engine"`
		History []string `json:"history"`
	}
	hist := [][]string{{"A"}, {"A", "B"}, {"A", "B", "C"}, {"A", "drain", "B", "C"}}
	rules := map[string]string{"A": "||only-a.test^", "B": "||only-b.test^", "C": "||only-c.test^"}
	for _, h := range hist {
		a, err := build(c.TmpDir, false)
		if err != nil {
			c.EngineError("assembly: " + err.Error())
			return
		}
		last := ""
		for _, step := range h {
			if step == "drain" {
				for {
					ran, err := a.filter.VerifRunPendingInit()
					if err != nil || !ran {
						break
					}
				}
				continue
			}
			a.call("POST", "/control/filtering/set_rules", fmt.Sprintf(`{"rules":[%q]}`, rules[step]))
			last = step
		}
		for {
			ran, err := a.filter.VerifRunPendingInit()
			if err != nil || !ran {
				break
			}
		}
		c.Count("evals", 1)
		c.Count("queue_histories", 1)
		c.Distinct("nontrivial", "queue|"+strings.Join(h, ","))
		for step, r := range rules {
			host := strings.TrimSuffix(strings.TrimPrefix(r, "||"), "^")
			res, err := a.filter.CheckHost(host, dns.TypeA, &filtering.Settings{FilteringEnabled: true, ProtectionEnabled: true})
			blocked := err == nil && res.IsFiltered
			if blocked != (step == last) {
				c.Violation("stale-engine-after-queued-updates", fmt.Sprintf("custom rules were set %v in a row while the engine initialiser was busy; after the queue was drained %s is blocked=%v although the configuration holds only the rule of %q", h, host, blocked, last),
					qcase{Engine: "queue", History: h})
			}
		}
		a.close()
	}
}

// listOps: life-cycle operations on the one block list of the assembly.
var listOps = []string{"disable", "enable", "refresh", "remove", "add", "edit-file"}

type listCase struct {
	Engine  string   `json:"engine"`
	History []string `json:"history"`
}

// runListHistory executes a history of list operations through the real API
// handlers; after every step the rules in force must be those of the lists that
// are present and enabled: a name of the list is blocked exactly then.
func runListHistory(tmp string, h []string) (vkey, vdesc string, engineErr string) {
	a, err := build(tmp, false)
	if err != nil {
		return "", "", "assembly: " + err.Error()
	}
	defer a.close()
	u := filepath.Join(a.dir, "lists", "block.txt")
	present, enabled, extra := true, true, false
	for i, step := range h {
		var code int
		var body string
		switch step {
		case "disable", "enable":
			if !present {
				continue
			}
			code, body = a.call("POST", "/control/filtering/set_url", fmt.Sprintf(`{"url":%q,"whitelist":false,"data":{"name":"block","url":%q,"enabled":%v}}`, u, u, step == "enable"))
			if code == 200 {
				enabled = step == "enable"
			}
		case "refresh":
			code, body = a.call("POST", "/control/filtering/refresh", `{"whitelist":false}`)
		case "remove":
			if !present {
				continue
			}
			code, body = a.call("POST", "/control/filtering/remove_url", fmt.Sprintf(`{"url":%q,"whitelist":false}`, u))
			if code == 200 {
				present = false
			}
		case "add":
			if present {
				continue
			}
			code, body = a.call("POST", "/control/filtering/add_url", fmt.Sprintf(`{"name":"block","url":%q,"whitelist":false}`, u))
			if code == 200 {
				present, enabled = true, true
			}
		case "edit-file":
			// The source of the list gains a rule; it takes effect with the next
			// successful fetch only, which the reference does not predict: the
			// probe name below is in both versions.
			extra = !extra
			txt := "||blocked.test^\n||bad-target.test^\n"
			if extra {
				txt += "||extra.test^\n"
			}
			_ = os.WriteFile(u, []byte(txt), 0o644)
			continue
		}
		if code >= 500 {
			return "list-operation-failed:" + step, fmt.Sprintf("%s answered %d: %s (history %v)", step, code, body, h[:i+1]), ""
		}
		for {
			ran, ierr := a.filter.VerifRunPendingInit()
			if ierr != nil {
				return "engine-rebuild-failed", ierr.Error(), ""
			}
			if !ran {
				break
			}
		}
		a.up.Reset()
		resp, _, rerr := handle(a, &proxy.DNSContext{Req: mkReq(21, "blocked.test", dns.TypeA), Proto: proxy.ProtoUDP, Addr: netip.MustParseAddrPort("192.168.1.5:5555"), RequestID: uint64(1000 + i)})
		if rerr != nil || resp == nil {
			return "list-history-request-failed", fmt.Sprintf("request after %v failed: %v", h[:i+1], rerr), ""
		}
		asked := len(a.up.Reset())
		blocked := asked == 0 && len(resp.Answer) == 1 && strings.Contains(resp.Answer[0].String(), blockedV4)
		want := present && enabled
		if blocked != want {
			what := "is forwarded to the upstream although its list is present and enabled"
			if blocked {
				what = "is still blocked although its list is disabled or removed"
			}
			return "rules-in-force-differ-from-enabled-lists:" + map[bool]string{true: "stale-block", false: "missed-block"}[blocked],
				fmt.Sprintf("after the list operations %v a query for blocked.test %s (upstream calls %d, answer %v)", h[:i+1], what, asked, resp.Answer), ""
		}
	}
	return "", "", ""
}

// allowOps: the same life cycle on the one allow list, which (in these
// histories) also holds the probe name of the block list: the name is blocked
// exactly when the allow list is absent or disabled.
var allowOps = []string{"allow:disable", "allow:enable", "allow:refresh", "allow:remove", "allow:add"}

func runAllowHistory(tmp string, h []string) (vkey, vdesc string, engineErr string) {
	a, err := build(tmp, false)
	if err != nil {
		return "", "", "assembly: " + err.Error()
	}
	defer a.close()
	u := filepath.Join(a.dir, "lists", "allow.txt")
	_ = os.WriteFile(u, []byte("||allowed.test^\n||blocked.test^\n"), 0o644)
	if code, body := a.call("POST", "/control/filtering/refresh", `{"whitelist":true}`); code != 200 {
		return "", "", fmt.Sprintf("initial refresh of the allow list: %d %s", code, body)
	}
	present, enabled := true, true
	for i := -1; i < len(h); i++ {
		var code int
		var body string
		step := "start"
		if i >= 0 {
			step = strings.TrimPrefix(h[i], "allow:")
		}
		switch step {
		case "disable", "enable":
			if !present {
				continue
			}
			code, body = a.call("POST", "/control/filtering/set_url", fmt.Sprintf(`{"url":%q,"whitelist":true,"data":{"name":"allow","url":%q,"enabled":%v}}`, u, u, step == "enable"))
			if code == 200 {
				enabled = step == "enable"
			}
		case "refresh":
			code, body = a.call("POST", "/control/filtering/refresh", `{"whitelist":true}`)
		case "remove":
			if !present {
				continue
			}
			code, body = a.call("POST", "/control/filtering/remove_url", fmt.Sprintf(`{"url":%q,"whitelist":true}`, u))
			if code == 200 {
				present = false
			}
		case "add":
			if present {
				continue
			}
			code, body = a.call("POST", "/control/filtering/add_url", fmt.Sprintf(`{"name":"allow","url":%q,"whitelist":true}`, u))
			if code == 200 {
				present, enabled = true, true
			}
		}
		if code >= 500 {
			return "list-operation-failed:allow:" + step, fmt.Sprintf("%s answered %d: %s (history %v)", step, code, body, h[:i+1]), ""
		}
		for {
			ran, ierr := a.filter.VerifRunPendingInit()
			if ierr != nil {
				return "engine-rebuild-failed", ierr.Error(), ""
			}
			if !ran {
				break
			}
		}
		a.up.Reset()
		resp, _, rerr := handle(a, &proxy.DNSContext{Req: mkReq(21, "blocked.test", dns.TypeA), Proto: proxy.ProtoUDP, Addr: netip.MustParseAddrPort("192.168.1.5:5555"), RequestID: uint64(2000 + i)})
		if rerr != nil || resp == nil {
			return "list-history-request-failed", fmt.Sprintf("request after %v failed: %v", h[:i+1], rerr), ""
		}
		asked := len(a.up.Reset())
		blocked := asked == 0 && len(resp.Answer) == 1 && strings.Contains(resp.Answer[0].String(), blockedV4)
		want := !(present && enabled)
		if blocked != want {
			what := "is blocked although the allow list that names it is present and enabled"
			if !blocked {
				what = "is still forwarded to the upstream although the allow list that named it is disabled or removed"
			}
			return "rules-in-force-differ-from-enabled-lists:allow:" + map[bool]string{true: "stale-block", false: "missed-block"}[blocked],
				fmt.Sprintf("after the allow-list operations %v a query for blocked.test (in the enabled block list) %s (upstream calls %d, answer %v)", h[:i+1], what, asked, resp.Answer), ""
		}
	}
	return "", "", ""
}

// protOps: ways of switching protection (both admin endpoints) and the clock.
var protOps = []string{"pause-1h", "off", "on", "cfg-on", "cfg-off", "advance-2h"}

// runProtHistory: after every step a query for a blocked name is blocked
// exactly when protection is on: the last explicit setting decides, a timed
// pause ends at its deadline.
func runProtHistory(tmp string, h []string) (vkey, vdesc string, engineErr string) {
	start := time.Date(2024, 6, 5, 12, 0, 0, 0, time.UTC)
	vtime.SetVirtual(start)
	defer vtime.SetVirtual(time.Time{})
	a, err := build(tmp, false)
	if err != nil {
		return "", "", "assembly: " + err.Error()
	}
	defer a.close()
	on, unsure := true, false
	var until time.Time // zero = no pause running
	for i, step := range h {
		var code int
		var body string
		switch step {
		case "pause-1h":
			code, body = a.call("POST", "/control/protection", `{"enabled":false,"duration":3600000}`)
			on, until = false, vtime.Now().Add(time.Hour)
		case "off":
			code, body = a.call("POST", "/control/protection", `{"enabled":false}`)
			on, until = false, time.Time{}
		case "on":
			code, body = a.call("POST", "/control/protection", `{"enabled":true}`)
			on, until = true, time.Time{}
		case "cfg-on":
			code, body = a.call("POST", "/control/dns_config", `{"protection_enabled":true}`)
			on, until = true, time.Time{}
		case "cfg-off":
			// "false" while a pause is running may mean "leave it as it is" (the
			// settings form sends the value it was shown) or "off for good": what
			// happens at the deadline is then not judged.
			code, body = a.call("POST", "/control/dns_config", `{"protection_enabled":false}`)
			on = false
			unsure = !until.IsZero()
		case "advance-2h":
			vtime.AdvanceVirtual(2 * time.Hour)
			code = 200
		}
		if code != 200 {
			return "protection-operation-failed:" + step, fmt.Sprintf("%s answered %d: %s (history %v)", step, code, body, h[:i+1]), ""
		}
		if step != "cfg-off" && step != "advance-2h" {
			unsure = false
		}
		expired := !until.IsZero() && !vtime.Now().Before(until)
		if expired && !unsure {
			on, until = true, time.Time{} // the pause has run out
		}
		a.up.Reset()
		resp, _, rerr := handle(a, &proxy.DNSContext{Req: mkReq(31, "blocked.test", dns.TypeA), Proto: proxy.ProtoUDP, Addr: netip.MustParseAddrPort("192.168.1.5:5556"), RequestID: uint64(2000 + i)})
		if rerr != nil || resp == nil {
			return "protection-history-request-failed", fmt.Sprintf("request after %v failed: %v", h[:i+1], rerr), ""
		}
		asked := len(a.up.Reset())
		blocked := asked == 0 && len(resp.Answer) == 1 && strings.Contains(resp.Answer[0].String(), blockedV4)
		// The request that notices an expired pause starts the re-enable worker;
		// let it finish before the next step.
		for k := 0; k < 2000 && !a.server.VerifProtectionUpdateIdle(); k++ {
			time.Sleep(time.Millisecond)
		}
		if expired && unsure {
			// Follow the implementation (see cfg-off above).
			on, until, unsure = blocked, time.Time{}, false
		}
		if blocked != on {
			what := "is forwarded although protection was switched on (or the pause has run out)"
			if blocked {
				what = "is blocked although protection was switched off"
			}
			return "protection-state-differs:" + map[bool]string{true: "blocked-while-off", false: "forwarded-while-on"}[blocked],
				fmt.Sprintf("after %v (clock %s after the start) a query for blocked.test %s (upstream calls %d, answer %v)", h[:i+1], vtime.Now().Sub(start), what, asked, resp.Answer), ""
		}
	}
	return "", "", ""
}

func phaseProtection(c *lib.Ctx) {
	depth := 4
	if !c.Quick() {
		depth = 5
	}
	idx := 0
	stop := false
	var rec func(h []string)
	rec = func(h []string) {
		if stop {
			return
		}
		if len(h) == depth {
			idx++
			if !c.Mine(idx) {
				return
			}
			if c.Expired() {
				stop = true
				c.NotExhaustive("protection histories: time budget")
				return
			}
			c.Count("evals", 1)
			c.Count("protection_histories", 1)
			c.Distinct("nontrivial", "protection|"+strings.Join(h, ","))
			k, d, eerr := runProtHistory(c.TmpDir, h)
			switch {
			case eerr != "":
				c.EngineError(eerr)
				stop = true
			case k != "":
				c.Violation(k, d, listCase{Engine: "protection", History: append([]string{}, h...)})
			}
			return
		}
		for _, o := range protOps {
			rec(append(h, o))
		}
	}
	rec(nil)
}

// phaseLists enumerates every history of list operations up to a depth.
func phaseLists(c *lib.Ctx) {
	depth := 4
	if !c.Quick() {
		depth = 6
	}
	idx := 0
	var rec func(h []string)
	stop := false
	rec = func(h []string) {
		if stop {
			return
		}
		if len(h) == depth { // every prefix is judged on the way
			idx++
			if c.Mine(idx) {
				if c.Expired() {
					stop = true
					c.NotExhaustive("list histories: time budget")
					return
				}
				c.Count("evals", 1)
				c.Count("list_histories", 1)
				c.Distinct("nontrivial", "lists|"+strings.Join(h, ","))
				run := runListHistory
				if strings.HasPrefix(h[0], "allow:") {
					run = runAllowHistory
				}
				k, d, eerr := run(c.TmpDir, h)
				switch {
				case eerr != "":
					c.EngineError(eerr)
					stop = true
				case k != "":
					c.Violation(k, d, listCase{Engine: "lists", History: append([]string{}, h...)})
				}
				if idx%97 == 0 {
					c.Sample(listCase{Engine: "lists", History: append([]string{}, h...)})
				}
			}
		}
		if len(h) == depth {
			return
		}
		ops := listOps
		if len(h) > 0 && strings.HasPrefix(h[0], "allow:") {
			ops = allowOps
		}
		for _, o := range ops {
			rec(append(h, o))
		}
		if len(h) == 0 {
			for _, o := range allowOps {
				rec(append(h, o))
			}
		}
	}
	rec(nil)
}

// phaseEscape: what the client storage hands out is a snapshot.  Requests read
// these objects without any lock, so an object that a later update still
// changes is shared state that has escaped the lock (the free-running race
// pass sees such sharing only in one narrow order of the two accesses).
// Deterministic: get the object, perform the update, compare.
func phaseEscape(c *lib.Ctx) {
	type ecase struct {
		Engine string `json:"engine"`
		Getter string `json:"getter"`
	}
	a, err := build(c.TmpDir, false)
	if err != nil {
		c.EngineError("assembly: " + err.Error())
		return
	}
	defer a.close()
	ctx := context.Background()
	ip := netip.MustParseAddr("192.168.1.9")
	showRT := func(rc *client.Runtime) string {
		if rc == nil {
			return "<nil>"
		}
		src, host := rc.Info()
		return fmt.Sprintf("source=%v host=%q whois=%+v", src, host, rc.WHOIS())
	}
	showP := func(p *client.Persistent) string {
		if p == nil {
			return "<nil>"
		}
		var svcs []string
		if p.BlockedServices != nil {
			svcs = p.BlockedServices.IDs
		}
		return fmt.Sprintf("name=%q ids=%v upstreams=%v tags=%v services=%v own=%v/%v ignore=%v/%v", p.Name, p.IDs(), p.Upstreams, p.Tags, svcs, p.UseOwnSettings, p.UseOwnBlockedServices, p.IgnoreQueryLog, p.IgnoreStatistics)
	}
	check := func(getter, before, after string) {
		c.Count("evals", 1)
		c.Count("escape_probes", 1)
		c.Distinct("nontrivial", "escape|"+getter)
		if before != after {
			c.Violation("shared-state-escapes-lock:"+getter, fmt.Sprintf("%s handed out an object that a later update of the storage changed (requests read it without the lock): before %s, after %s", getter, before, after), ecase{Engine: "escape", Getter: getter})
		}
	}
	// Runtime client (DHCP lease for the address), then rDNS / WHOIS arrive.
	rc := a.clients.ClientRuntime(ip)
	b := showRT(rc)
	a.clients.UpdateAddress(ctx, ip, "escaped.example", &whois.Info{City: "Elsewhere", Country: "ZZ", Orgname: "Other"})
	a.clients.UpdateDHCP(ctx)
	check("ClientRuntime", b, showRT(rc))
	// Persistent client by every getter, then an update through the API.
	p1, _ := a.clients.Find("10.0.0.1")
	p2, _ := a.clients.FindByName("kid")
	p3, _ := a.clients.FindLoose(netip.MustParseAddr("10.0.0.1"), "")
	b1, b2, b3 := showP(p1), showP(p2), showP(p3)
	code, body := a.call("POST", "/control/clients/update", `{"name":"kid","data":`+clientJSON("kid", "10.0.0.1", "10.0.0.77", "cid-zz")+`}`)
	if code != 200 {
		c.EngineError(fmt.Sprintf("escape probe: clients/update answered %d %s", code, body))
		return
	}
	check("Find", b1, showP(p1))
	check("FindByName", b2, showP(p2))
	check("FindLoose", b3, showP(p3))
	// The deadline of a protection pause: status readers (dns_info, status, the
	// configuration writer) keep the pointer and read through it after every lock
	// is released, so a later pause must not write through it.
	if code, body = a.call("POST", "/control/protection", `{"enabled":false,"duration":60000}`); code != 200 {
		c.EngineError(fmt.Sprintf("escape probe: protection answered %d %s", code, body))
		return
	}
	showT := func(t *time.Time) string {
		if t == nil {
			return "<nil>"
		}
		return t.UTC().Format(time.RFC3339Nano)
	}
	_, until := a.filter.ProtectionStatus()
	var disk filtering.Config
	a.filter.WriteDiskConfig(&disk)
	bt, bd := showT(until), showT(disk.ProtectionDisabledUntil)
	if until == nil {
		c.EngineError("escape probe: no deadline after a timed pause")
		return
	}
	if code, body = a.call("POST", "/control/protection", `{"enabled":false,"duration":7200000}`); code != 200 {
		c.EngineError(fmt.Sprintf("escape probe: second protection call answered %d %s", code, body))
		return
	}
	check("ProtectionStatus", bt, showT(until))
	check("WriteDiskConfig.ProtectionDisabledUntil", bd, showT(disk.ProtectionDisabledUntil))
	if _, now := a.filter.ProtectionStatus(); now == nil || !now.After(until.Add(time.Hour)) {
		c.EngineError("escape probe: the second pause did not move the deadline: " + showT(now))
	}
	a.call("POST", "/control/protection", `{"enabled":true}`)
	c.Sample(ecase{Engine: "escape", Getter: "ClientRuntime, Find, FindByName, FindLoose, ProtectionStatus, WriteDiskConfig"})
}

func run(c *lib.Ctx) {
	srv.Quiet()
	if c.ShardI == 0 {
		phaseQueue(c)
		phaseEscape(c)
	}
	// Half of the shards explore schedules, the other half run the race pass.
	half := c.ShardN / 2
	if half == 0 {
		half = 1
	}
	if c.ShardI < half || c.ShardN == 1 {
		sub := *c
		_ = sub
		runShard(c, c.ShardI, half, phaseSched)
	}
	if c.ShardI >= half || c.ShardN == 1 {
		runShard(c, c.ShardI-half, c.ShardN-half, phaseRace)
	}
}

// runShard temporarily renumbers the shard for one phase.
func runShard(c *lib.Ctx, i, n int, f func(*lib.Ctx)) {
	if n <= 0 {
		n, i = 1, 0
	}
	oi, on := c.ShardI, c.ShardN
	c.ShardI, c.ShardN = i, n
	f(c)
	c.ShardI, c.ShardN = oi, on
}

func replay(c *lib.Ctx, raw json.RawMessage) string {
	srv.Quiet()
	var cs caseC
	if err := json.Unmarshal(raw, &cs); err != nil {
		return err.Error()
	}
	if cs.Engine == "escape" {
		before := c.NumViolationKeys()
		phaseEscape(c)
		if c.NumViolationKeys() > before {
			return "violation reproduced (shared state escapes the lock)"
		}
		return ""
	}
	if cs.Engine == "protection" {
		var lc listCase
		if err := json.Unmarshal(raw, &lc); err != nil {
			return err.Error()
		}
		k, d, eerr := runProtHistory(c.TmpDir, lc.History)
		if eerr != "" {
			return "engine: " + eerr
		}
		if k != "" {
			return k + ": " + d
		}
		return ""
	}
	if cs.Engine == "lists" {
		var lc listCase
		if err := json.Unmarshal(raw, &lc); err != nil {
			return err.Error()
		}
		run := runListHistory
		if len(lc.History) > 0 && strings.HasPrefix(lc.History[0], "allow:") {
			run = runAllowHistory
		}
		k, d, eerr := run(c.TmpDir, lc.History)
		if eerr != "" {
			return "engine: " + eerr
		}
		if k != "" {
			return k + ": " + d
		}
		return ""
	}
	scs := scenarios(cs.Quick)
	si := -1
	for i, sc := range scs {
		if sc.name() == cs.Scenario {
			si = i
		}
	}
	if si < 0 {
		return "unknown scenario"
	}
	if cs.Engine == "queue" {
		phaseQueue(c)
		if c.NumViolationKeys() > 0 {
			return "violation reproduced"
		}
		return ""
	}
	if cs.Engine == "E4-race" {
		return fmt.Sprintf("race cells are replayed with: VERIF_C05_CELL=%d,%d,10,%d GORACE=halt_on_error=0 /verif/.bin/c05.race", si, cs.Order, map[bool]int{true: 1, false: 0}[cs.Quick])
	}
	mk := mkBody(c, scs[si])
	rp := scs[si].req >= 0 && len(scs[si].ops) == 1
	r1, f1 := vsync.RunOne(mk, cs.Schedule, vsync.Options{Trace: true, StuckTimeout: 120 * time.Second, ReleasePoints: rp})
	r2, f2 := vsync.RunOne(mk, cs.Schedule, vsync.Options{Trace: true, StuckTimeout: 120 * time.Second, ReleasePoints: rp})
	if len(r1.Points) != len(r2.Points) || r1.Deadlock != r2.Deadlock || f1 != f2 {
		return "REPLAY DIVERGED between two runs of the same schedule (engine error)"
	}
	var sb strings.Builder
	for i, p := range r1.Points {
		fmt.Fprintf(&sb, "%3d %s\n", i, p.Desc)
	}
	switch {
	case r1.EngineErr != "":
		return "engine error: " + r1.EngineErr
	case len(r1.Panics) > 0:
		return "panic: " + r1.Panics[0] + "\nschedule:\n" + sb.String()
	case r1.Deadlock:
		return "deadlock: " + fmt.Sprint(r1.Blocked) + "\nschedule:\n" + sb.String()
	case r1.Livelock:
		return "livelock\nschedule:\n" + sb.String()
	case f1 != "":
		return f1
	}
	return ""
}

// mainC01Histories: the same assembly serves property C01 for its clauses over
// histories of admin operations ("a name of an *enabled* list is blocked", "with
// protection switched off nothing is blocked"): bin/check C01 runs this binary
// with VERIF_AS=C01-histories after C01's own harness.
func mainC01Histories() {
	lib.Main(&lib.Harness{
		Prop: "C01", Level: "model_checking",
		Shards: func(string) int { return 16 },
		Budget: func(tier string) time.Duration {
			if tier == "thorough" {
				return 15 * time.Minute
			}
			return 3 * time.Minute
		},
		Run: func(c *lib.Ctx) {
			srv.Quiet()
			phaseLists(c)
			phaseProtection(c)
		},
		Replay: replay,
		Evidence: func(m *lib.Merged) map[string]any {
			return map[string]any{
				"evaluations":          m.Counters["evals"],
				"list_histories":       m.Counters["list_histories"],
				"protection_histories": m.Counters["protection_histories"],
				"distinct_nontrivial":  m.Distinct["nontrivial"],
				"rule":                 "on the full assembly (server, filter with file lists, clients, query log, statistics) through the real admin handlers: every history of <=4 (thorough 6) list life-cycle operations on the block list (disable, enable, refresh, remove, add, source edited), the same on the allow list that also names the probe (disable, enable, refresh, remove, add), and every history of <=4 (thorough 5) protection operations (timed pause, off, on, on/off through dns_config, clock +2 h); after every step a query for a name of the block list must be blocked exactly when the block list is present and enabled (and the allow list absent or disabled), respectively when protection is on",
			}
		},
		Assumptions: []string{"protection_enabled=false sent through dns_config while a timed pause is running may mean 'leave as is' or 'off for good': what happens at the deadline is then not judged"},
	})
}

func main() {
	if spec := os.Getenv("VERIF_C05_CELL"); spec != "" {
		childMain(spec)
		return
	}
	if os.Getenv("VERIF_AS") == "C01-histories" {
		mainC01Histories()
		return
	}
	runtime.GOMAXPROCS(runtime.GOMAXPROCS(0))
	lib.Main(&lib.Harness{
		Prop: "C05", Level: "model_checking",
		Shards: func(string) int { return 16 },
		Budget: func(tier string) time.Duration {
			if tier == "thorough" {
				return 28 * time.Minute
			}
			return 5 * time.Minute
		},
		Run: run, Replay: replay,
		Evidence: func(m *lib.Merged) map[string]any {
			return map[string]any{
				"states":                        m.Counters["sched_points"],
				"transitions":                   m.Counters["sched_points"],
				"traces_validated_against_impl": m.Counters["sched_executions"],
				"evaluations":                   m.Counters["evals"],
				"distinct_nontrivial":           m.Distinct["nontrivial"],
				"schedules_explored":            m.Counters["sched_executions"],
				"scheduling_points":             m.Counters["sched_points"],
				"max_points_per_execution":      m.Maxes["max_points_per_execution"],
				"scenarios_completed_bound_0":   m.Distinct["sched_scenarios_bound_0"],
				"scenarios_completed_bound_1":   m.Distinct["sched_scenarios_bound_1"],
				"scenarios_completed_bound_2":   m.Distinct["sched_scenarios_bound_2"],
				"distinct_outcomes":             m.Distinct["outcomes"],
				"race_cells":                    m.Distinct["race_cells"],
				"race_runs":                     m.Counters["race_runs"],
				"race_reports":                  m.Counters["race_reports"],
				"rule":                          fmt.Sprintf("scenario matrix = every one of %d request bodies x every one of %d admin/background bodies, every background body x every admin body (thorough: plus request x background x admin triples), on a full assembly wired as in package home (server, filter with file lists, client storage, query log, statistics on bbolt). E2: every scenario explored under a cooperative scheduler that owns every sync/atomic operation of the rewritten packages (RWMutex with writer preference), iterative preemption bounding 0,1 (quick) / 0,1,2 (thorough); oracle per execution: no panic, no deadlock/livelock, well-formed response, operation did not fail, queued engine rebuild works. 'states'/'transitions' report scheduling points visited (stateless search keeps no state set). E4: every scenario x both start orders x K runs free-running in a -race build; the verdict inside a cell is the race detector's happens-before analysis of the observed execution, not an enumeration of schedules.", len(requests), len(operations)),
			}
		},
		Assumptions: []string{"data races are decided by the Go race detector on free runs of the exhaustively enumerated scenario matrix (not by schedule enumeration)", "the scheduler sees interleavings only at sync/atomic operations of the rewritten AdGuardHome packages and bbolt; goroutines the code spawns itself are replaced by explicit bodies", "DHCP lease operations are not in the matrix"},
	})
}
