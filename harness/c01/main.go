// C01 — a query blocked by rules is answered locally and never forwarded.
// Stateless bounded-exhaustive enumeration of (rule set, configuration,
// request) on a real dnsforward.Server + filtering.DNSFilter + client.Storage
// with a recording mock upstream, against a composition model (DESIGN.md §4 C01).
package main

import (
	"encoding/json"
	"fmt"
	"net/netip"
	"sort"
	"strings"
	"time"

	"github.com/AdguardTeam/AdGuardHome/internal/filtering"
	"github.com/AdguardTeam/AdGuardHome/internal/verifx/lib"
	"github.com/AdguardTeam/AdGuardHome/internal/verifx/srv"
	vtime "github.com/AdguardTeam/AdGuardHome/verifx/vtime"
	"github.com/AdguardTeam/dnsproxy/proxy"
	"github.com/AdguardTeam/urlfilter/rules"
	"github.com/miekg/dns"
)

var now = time.Date(2024, 6, 5, 12, 0, 0, 0, time.UTC)

const (
	cliAddr   = "10.0.0.1" // the persistent client, when there is one
	otherAddr = "10.0.0.9"
	cliName   = "kid"
	svcID     = "9gag"
	svcDomain = "9gag.com"
)

type placed struct {
	Text  string `json:"rule"`
	Where string `json:"in"` // block, custom, allow
}

type config struct {
	Rules     []placed `json:"rules"`
	Mode      string   `json:"mode"`
	TTL       uint32   `json:"ttl"`
	Prot      string   `json:"protection"` // on, off, paused, pause-expired
	Filtering bool     `json:"global_filtering"`
	Client    string   `json:"client"`   // none, global, own-on, own-off
	Services  string   `json:"services"` // none, global, global-paused, client, client-paused, and global[-paused]+client[-paused]
}

type request struct {
	Name  string `json:"name"`
	Qtype string `json:"qtype"`
	From  string `json:"from"`
}

type caseC struct {
	Conf config  `json:"config"`
	Req  request `json:"request"`
	Got  string  `json:"got,omitempty"`
	Want string  `json:"want,omitempty"`
}

// ---- alphabet ----------------------------------------------------------------

func ruleTemplates() []string {
	var out []string
	for _, d := range []string{"blocked.test", "sub.blocked.test"} {
		out = append(out,
			"||"+d+"^", d, "*."+d, "@@||"+d+"^", "||"+d+"^$important", "@@||"+d+"^$important",
			"||"+d+"^$dnstype=A", "||"+d+"^$dnstype=~A", "||"+d+"^$client="+cliAddr, "||"+d+"^$client=~"+cliAddr,
			"||"+d+"^$client='"+cliName+"'", "@@||"+d+"^$client='"+cliName+"'",
			"1.2.3.4 "+d, "::1 "+d, "0.0.0.0 "+d)
	}
	out = append(out, "||blocked.test^$denyallow=sub.blocked.test", "||test^", "@@||test^", "|blocked.test^")
	return out
}

func placedRules() []placed {
	var out []placed
	for _, t := range ruleTemplates() {
		out = append(out, placed{t, "block"}, placed{t, "custom"})
		if !strings.HasPrefix(t, "@@") {
			out = append(out, placed{t, "allow"})
		}
	}
	return out
}

var names = []string{"blocked.test", "sub.blocked.test", "a.sub.blocked.test", "BLOCKED.Test", "xblocked.test", "test", "other.example", svcDomain, "WWW." + strings.ToUpper(svcDomain)}
var qtypes = []uint16{dns.TypeA, dns.TypeAAAA, dns.TypeHTTPS, dns.TypeTXT, dns.TypeCNAME}

// ---- reference model ---------------------------------------------------------

type parsed struct {
	net  *rules.NetworkRule
	host *rules.HostRule
	p    placed
}

func parse(p placed, id int) (parsed, bool) {
	r, err := rules.NewRule(p.Text, id)
	if err != nil || r == nil {
		return parsed{}, false
	}
	switch x := r.(type) {
	case *rules.NetworkRule:
		if !x.IsHostLevelNetworkRule() {
			return parsed{}, false
		}
		return parsed{net: x, p: p}, true
	case *rules.HostRule:
		return parsed{host: x, p: p}, true
	}
	return parsed{}, false
}

type eff struct {
	protection bool
	filtering  bool
	services   bool
	clientName string
}

func effective(c *config, from string) eff {
	e := eff{filtering: c.Filtering}
	switch c.Prot {
	case "on", "pause-expired":
		e.protection = true
	}
	isClient := c.Client != "none" && from == cliAddr
	if isClient {
		e.clientName = cliName
		switch c.Client {
		case "own-on":
			e.filtering = true
		case "own-off":
			e.filtering = false
		}
	}
	// Services names the global list and, after "+", the client's own list:
	// a client with its own (paused or not) service list does not use the
	// global one at all; everybody else uses the global one.
	glob, own := c.Services, ""
	if i := strings.Index(c.Services, "+"); i >= 0 {
		glob, own = c.Services[:i], c.Services[i+1:]
	} else if strings.HasPrefix(c.Services, "client") {
		glob, own = "none", c.Services
	}
	e.services = glob == "global"
	if isClient && own != "" {
		e.services = own == "client"
	}
	return e
}

type verdict struct {
	class string   // blocked, forwarded
	why   string   // which stage decided
	ips   []string // addresses of matching hosts-style rules for the asked family
	hosts bool     // blocked by hosts-style lines
}

func matchSet(ps []parsed, host string, qtype uint16, e eff, from string) (nets []*rules.NetworkRule, hosts []*rules.HostRule) {
	req := rules.NewRequestForHostname(host)
	req.ClientIP = netip.MustParseAddr(from)
	req.ClientName = e.clientName
	req.DNSType = qtype
	for _, p := range ps {
		if p.net != nil && p.net.Match(req) {
			nets = append(nets, p.net)
		}
		if p.host != nil && p.host.Match(host) {
			hosts = append(hosts, p.host)
		}
	}
	return nets, hosts
}

func contains(l []string, s string) bool {
	for _, x := range l {
		if x == s {
			return true
		}
	}
	return false
}

func pick(nets []*rules.NetworkRule) *rules.NetworkRule {
	rank := func(r *rules.NetworkRule) int {
		imp := r.IsOptionEnabled(rules.OptionImportant)
		switch {
		case imp && r.Whitelist:
			return 4
		case imp:
			return 3
		case r.Whitelist:
			return 2
		}
		return 1
	}
	var best *rules.NetworkRule
	for _, r := range nets {
		if best == nil || rank(r) > rank(best) {
			best = r
		}
	}
	return best
}

func decide(c *config, rq request, allow, block []parsed) verdict {
	e := effective(c, rq.From)
	host := strings.ToLower(strings.TrimSuffix(rq.Name, "."))
	qt := dns.StringToType[rq.Qtype]
	if e.filtering {
		if e.protection {
			an, ah := matchSet(allow, host, qt, e, rq.From)
			if len(an) > 0 || len(ah) > 0 {
				return verdict{class: "forwarded", why: "allow-list"}
			}
		}
		bn, bh := matchSet(block, host, qt, e, rq.From)
		if b := pick(bn); b != nil {
			if b.Whitelist {
				if e.protection {
					return verdict{class: "forwarded", why: "exception"}
				}
			} else if e.protection {
				return verdict{class: "blocked", why: "rule"}
			}
		} else if len(bh) > 0 && e.protection {
			v := verdict{class: "blocked", why: "hosts", hosts: true}
			for _, h := range bh {
				if ((qt == dns.TypeA && h.IP.Is4()) || (qt == dns.TypeAAAA && h.IP.Is6())) && !contains(v.ips, h.IP.String()) {
					v.ips = append(v.ips, h.IP.String())
				}
			}
			return v
		}
	}
	if e.protection && e.services {
		if host == svcDomain || strings.HasSuffix(host, "."+svcDomain) {
			return verdict{class: "blocked", why: "service"}
		}
	}
	return verdict{class: "forwarded", why: "nothing"}
}

// ---- observation ---------------------------------------------------------------

func rrStrings(rrs []dns.RR) []string {
	var out []string
	for _, rr := range rrs {
		out = append(out, strings.Join(strings.Fields(rr.String()), " "))
	}
	return out
}

func describe(m *dns.Msg) string {
	if m == nil {
		return "<nil response>"
	}
	return fmt.Sprintf("rcode=%s q=%s/%s answer=%v ns=%d", dns.RcodeToString[m.Rcode], m.Question[0].Name, dns.TypeToString[m.Question[0].Qtype], rrStrings(m.Answer), len(m.Ns))
}

// checkBlocked validates the synthetic response of the blocking mode.
func checkBlocked(c *config, rq request, v verdict, m *dns.Msg) string {
	qt := dns.StringToType[rq.Qtype]
	for _, rr := range m.Answer {
		s := rr.String()
		if strings.Contains(s, srv.UpstreamA) || strings.Contains(s, srv.UpstreamAAAA) || strings.Contains(s, srv.UpstreamTXT) || strings.Contains(s, "upstream.example") {
			return "blocked response carries upstream data: " + s
		}
	}
	addrQ := qt == dns.TypeA || qt == dns.TypeAAAA
	if !addrQ {
		// Other types: an empty synthetic answer; rcode NOERROR or the mode's own rcode.
		if len(m.Answer) != 0 {
			return "blocked non-address query has answer records"
		}
		switch m.Rcode {
		case dns.RcodeSuccess:
		case dns.RcodeNameError:
			if c.Mode != "nxdomain" {
				return "NXDOMAIN outside nxdomain mode"
			}
		case dns.RcodeRefused:
			if c.Mode != "refused" {
				return "REFUSED outside refused mode"
			}
		default:
			return "unexpected rcode for a blocked query"
		}
		return ""
	}
	wantAns := func(ips ...string) string {
		var got []string
		for _, rr := range m.Answer {
			switch a := rr.(type) {
			case *dns.A:
				ip, _ := netip.AddrFromSlice(a.A)
				got = append(got, ip.Unmap().String())
			case *dns.AAAA:
				ip, _ := netip.AddrFromSlice(a.AAAA)
				got = append(got, ip.String())
			default:
				return "unexpected record type in blocked answer"
			}
			if rr.Header().Ttl != c.TTL {
				return fmt.Sprintf("blocked answer TTL %d, configured %d", rr.Header().Ttl, c.TTL)
			}
			if !strings.EqualFold(rr.Header().Name, dns.Fqdn(rq.Name)) {
				return "blocked answer owner name differs from the question"
			}
		}
		sort.Strings(got)
		sort.Strings(ips)
		if strings.Join(got, ",") != strings.Join(ips, ",") || m.Rcode != dns.RcodeSuccess {
			return fmt.Sprintf("want NOERROR with %v, got rcode %s with %v", ips, dns.RcodeToString[m.Rcode], got)
		}
		return ""
	}
	null := "0.0.0.0"
	if qt == dns.TypeAAAA {
		null = "::"
	}
	switch c.Mode {
	case "nxdomain":
		if m.Rcode != dns.RcodeNameError || len(m.Answer) != 0 {
			return "nxdomain mode: want NXDOMAIN without answers"
		}
	case "refused":
		if m.Rcode != dns.RcodeRefused || len(m.Answer) != 0 {
			return "refused mode: want REFUSED without answers"
		}
	case "null_ip":
		return wantAns(null)
	case "custom_ip":
		if qt == dns.TypeA {
			return wantAns("10.10.10.10")
		}
		return wantAns("fd00::10")
	case "default":
		if v.hosts {
			if len(v.ips) > 0 {
				return wantAns(v.ips...)
			}
			// Hosts-style rule of the other family only: any synthetic
			// answer without upstream data is accepted (documentation silent).
			if m.Rcode != dns.RcodeSuccess {
				return "default mode: hosts-style block of the other family must be NOERROR"
			}
			return ""
		}
		return wantAns(null)
	}
	return ""
}

func checkForwarded(rq request, m *dns.Msg, asked []string) string {
	qt := dns.StringToType[rq.Qtype]
	wantAsk := fmt.Sprintf("%s/%s", dns.Fqdn(rq.Name), rq.Qtype)
	if len(asked) != 1 || !strings.EqualFold(asked[0], wantAsk) {
		return fmt.Sprintf("upstream call log %v, want exactly [%s]", asked, wantAsk)
	}
	q := &dns.Msg{Question: []dns.Question{{Name: dns.Fqdn(rq.Name), Qtype: qt, Qclass: dns.ClassINET}}}
	want := srv.DefaultAnswer(q)
	if m.Rcode != dns.RcodeSuccess {
		return "forwarded answer has rcode " + dns.RcodeToString[m.Rcode]
	}
	if len(m.Question) != 1 || m.Question[0].Name != dns.Fqdn(rq.Name) || m.Question[0].Qtype != qt {
		return "question section of the reply differs from the request"
	}
	g, w := rrStrings(m.Answer), rrStrings(want.Answer)
	if strings.Join(g, "|") != strings.Join(w, "|") {
		return fmt.Sprintf("upstream records not intact: got %v want %v", g, w)
	}
	return ""
}

// ---- execution -----------------------------------------------------------------

type env struct {
	c *lib.Ctx
}

func buildSpec(c *config) *srv.Spec {
	sp := &srv.Spec{
		Mode: filtering.BlockingMode(c.Mode), BlockedTTL: c.TTL, FilteringEnabled: c.Filtering,
		BlockingIPv4: "10.10.10.10", BlockingIPv6: "fd00::10",
	}
	for _, r := range c.Rules {
		switch r.Where {
		case "block":
			sp.BlockRules = append(sp.BlockRules, r.Text)
		case "custom":
			sp.CustomRules = append(sp.CustomRules, r.Text)
		case "allow":
			sp.AllowRules = append(sp.AllowRules, r.Text)
		}
	}
	switch c.Prot {
	case "on":
		sp.ProtectionEnabled = true
	case "off":
	case "paused":
		sp.DisabledUntil = now.Add(time.Hour)
	case "pause-expired":
		sp.DisabledUntil = now.Add(-time.Hour)
	}
	if c.Client != "none" {
		cs := srv.ClientSpec{Name: cliName, IDs: []string{cliAddr}}
		switch c.Client {
		case "own-on":
			cs.UseOwnSettings, cs.FilteringEnabled = true, true
		case "own-off":
			cs.UseOwnSettings, cs.FilteringEnabled = true, false
		}
		switch {
		case strings.HasSuffix(c.Services, "client"):
			cs.UseOwnBlockedServices, cs.BlockedServices = true, []string{svcID}
		case strings.HasSuffix(c.Services, "client-paused"):
			cs.UseOwnBlockedServices, cs.BlockedServices, cs.ServicesPaused = true, []string{svcID}, true
		case strings.HasSuffix(c.Services, "client-none"):
			// opted out of the global list, own list empty
			cs.UseOwnBlockedServices = true
		}
		sp.Clients = []srv.ClientSpec{cs}
	}
	switch {
	case c.Services == "global" || strings.HasPrefix(c.Services, "global+"):
		sp.GlobalServices = []string{svcID}
	case strings.HasPrefix(c.Services, "global-paused"):
		sp.GlobalServices, sp.GlobalServicesPaused = []string{svcID}, true
	}
	return sp
}

// runConfig builds one server and runs every request of reqs against it.
func (e *env) runConfig(c *config, reqs []request) {
	cx := e.c
	vtime.SetVirtual(now)
	a, err := srv.Build(buildSpec(c))
	if err != nil {
		cx.Violation("build-failed:"+err.Error(), fmt.Sprintf("server assembly failed for %s: %v", jsonStr(c), err), caseC{Conf: *c})
		return
	}
	defer a.Close()
	var allow, block []parsed
	for i, r := range c.Rules {
		p, ok := parse(r, i+1)
		if !ok {
			continue
		}
		if r.Where == "allow" {
			allow = append(allow, p)
		} else {
			block = append(block, p)
		}
	}
	cx.Count("configs", 1)
	for _, rq := range reqs {
		cx.Count("evals", 1)
		v := decide(c, rq, allow, block)
		a.Upstream.Reset()
		var pctx *proxy.DNSContext
		var berr, herr error
		var pan any
		func() {
			defer func() { pan = recover() }()
			pctx, berr, herr = a.Query(rq.Name, dns.StringToType[rq.Qtype], rq.From+":1234", proxy.ProtoUDP)
		}()
		asked := a.Upstream.Reset()
		cs := caseC{Conf: *c, Req: rq, Want: v.class + " (" + v.why + ")"}
		kinds := ruleKinds(c)
		if pan != nil {
			cs.Got = fmt.Sprint("panic: ", pan)
			cx.Violation("panic", fmt.Sprintf("request handling panics: %v\ncase: %s", pan, jsonStr(cs)), cs)
			continue
		}
		if berr != nil || herr != nil || pctx.Res == nil {
			cs.Got = fmt.Sprintf("beforeErr=%v err=%v res=%v", berr, herr, pctx.Res != nil)
			cx.Violation("no-response:"+v.class, fmt.Sprintf("request got no response (%s), expected %s\ncase: %s", cs.Got, cs.Want, jsonStr(cs)), cs)
			continue
		}
		cs.Got = describe(pctx.Res) + fmt.Sprintf(" upstream=%v", asked)
		if v.why != "nothing" {
			cx.Distinct("nontrivial", jsonStr(caseC{Conf: *c, Req: rq}))
		}
		cx.Distinct("cells", kinds+"|"+v.class+"|"+v.why+"|"+c.Mode+"|"+c.Prot+"|"+c.Client+"|"+c.Services+"|"+rq.Qtype)
		switch v.class {
		case "blocked":
			if len(asked) != 0 {
				cx.Violation("blocked-but-forwarded:"+v.why+":"+c.Mode, fmt.Sprintf("query must be blocked (%s) but the upstream was asked %v\ngot: %s\ncase: %s", v.why, asked, cs.Got, jsonStr(cs)), cs)
				continue
			}
			if msg := checkBlocked(c, rq, v, pctx.Res); msg != "" {
				cx.Violation("blocked-response:"+c.Mode+":"+rq.Qtype+":"+v.why, fmt.Sprintf("%s\ngot: %s\ncase: %s", msg, cs.Got, jsonStr(cs)), cs)
			}
		case "forwarded":
			if msg := checkForwarded(rq, pctx.Res, asked); msg != "" {
				key := "forwarded-response:" + v.why
				if len(asked) == 0 {
					key = "not-blocked-expected-but-blocked:" + v.why + ":" + c.Prot + ":" + c.Client
				}
				cx.Violation(key, fmt.Sprintf("%s\ngot: %s\ncase: %s", msg, cs.Got, jsonStr(cs)), cs)
			}
		}
	}
}

func ruleKinds(c *config) string {
	var ks []string
	for _, r := range c.Rules {
		t := r.Text
		t = strings.ReplaceAll(t, "sub.blocked.test", "D")
		t = strings.ReplaceAll(t, "blocked.test", "D")
		ks = append(ks, r.Where+":"+t)
	}
	sort.Strings(ks)
	return strings.Join(ks, ",")
}

func jsonStr(v any) string { b, _ := json.Marshal(v); return string(b) }

func allRequests(withSvc bool) []request {
	var out []request
	for _, n := range names {
		if !withSvc && strings.Contains(strings.ToLower(n), svcDomain) {
			continue
		}
		for _, qt := range qtypes {
			for _, f := range []string{cliAddr, otherAddr} {
				out = append(out, request{n, dns.TypeToString[qt], f})
			}
		}
	}
	return out
}

func run(c *lib.Ctx) {
	srv.Quiet()
	e := &env{c}
	pr := placedRules()
	idx := 0
	// Part A: rule semantics.  All rule sets of size <= 2 (quick) / <= 3
	// (thorough, third rule from the exception/important subset), default
	// mode, protection on, with the persistent client present (global settings)
	// so that $client rules by address and by name both have a subject.
	reqsA := allRequests(false)
	base := config{Mode: "default", TTL: 10, Prot: "on", Filtering: true, Client: "global", Services: "none"}
	doA := func(rs []placed) {
		idx++
		if !c.Mine(idx) || c.Expired() {
			return
		}
		cf := base
		cf.Rules = rs
		e.runConfig(&cf, reqsA)
		if idx%4001 == 0 {
			c.Sample(map[string]any{"config": cf, "requests": len(reqsA)})
		}
	}
	doA(nil)
	for i := range pr {
		doA([]placed{pr[i]})
	}
	for i := range pr {
		for j := i + 1; j < len(pr); j++ {
			doA([]placed{pr[i], pr[j]})
		}
	}
	c.Note("part_a", fmt.Sprintf("%d placed rules, all sets of size <= 2", len(pr)))
	if !c.Quick() {
		var third []placed
		for _, p := range pr {
			if strings.Contains(p.Text, "important") || strings.HasPrefix(p.Text, "@@") || strings.Contains(p.Text, "denyallow") {
				third = append(third, p)
			}
		}
		for i := range pr {
			for j := i + 1; j < len(pr); j++ {
				for _, t := range third {
					if t == pr[i] || t == pr[j] {
						continue
					}
					doA([]placed{pr[i], pr[j], t})
				}
			}
		}
		c.Note("part_a3", fmt.Sprintf("plus all pairs extended by one of %d exception/important rules", len(third)))
	}
	// Part B: modes and flags.  Rule sets of size <= 1 over a representative
	// subset x 5 modes x protection x filtering x client x services.
	reqsB := allRequests(true)
	var single [][]placed
	single = append(single, nil)
	for _, t := range []string{"||blocked.test^", "@@||blocked.test^", "||blocked.test^$important", "1.2.3.4 blocked.test", "::1 blocked.test", "||blocked.test^$client='" + cliName + "'", "||blocked.test^$dnstype=~A", "blocked.test"} {
		for _, w := range []string{"block", "custom", "allow"} {
			if w == "allow" && strings.HasPrefix(t, "@@") {
				continue
			}
			single = append(single, []placed{{t, w}})
		}
	}
	single = append(single, []placed{{"||blocked.test^", "block"}, {"||" + svcDomain + "^", "allow"}}, []placed{{"@@||" + svcDomain + "^", "custom"}})
	ttls := []uint32{10}
	if !c.Quick() {
		ttls = []uint32{0, 10}
	}
	for _, rs := range single {
		for _, mode := range []string{"default", "null_ip", "custom_ip", "nxdomain", "refused"} {
			for _, ttl := range ttls {
				for _, prot := range []string{"on", "off", "paused", "pause-expired"} {
					for _, flt := range []bool{true, false} {
						for _, cl := range []string{"none", "global", "own-on", "own-off"} {
							for _, sv := range []string{"none", "global", "global-paused", "client", "client-paused", "global+client-paused", "global-paused+client", "global+client", "global+client-none"} {
								if cl == "none" && strings.Contains(sv, "client") {
									continue
								}
								idx++
								if !c.Mine(idx) {
									continue
								}
								if c.Expired() {
									return
								}
								cf := config{Rules: rs, Mode: mode, TTL: ttl, Prot: prot, Filtering: flt, Client: cl, Services: sv}
								e.runConfig(&cf, reqsB)
							}
						}
					}
				}
			}
		}
	}
	c.Note("part_b", fmt.Sprintf("%d single/pair rule sets x 5 modes x %d TTLs x 4 protection states x 2 x 4 client kinds x 5 service settings", len(single), len(ttls)))
}

func replay(c *lib.Ctx, raw json.RawMessage) string {
	srv.Quiet()
	var cs caseC
	if err := json.Unmarshal(raw, &cs); err != nil {
		return err.Error()
	}
	(&env{c}).runConfig(&cs.Conf, []request{cs.Req})
	if c.NumViolationKeys() > 0 {
		return "violation reproduced: " + jsonStr(cs)
	}
	return ""
}

func main() {
	lib.Main(&lib.Harness{
		Prop: "C01", Level: "exploration",
		Budget: func(tier string) time.Duration {
			if tier == "thorough" {
				return 25 * time.Minute
			}
			return 4 * time.Minute
		},
		Run: run, Replay: replay,
		Evidence: func(m *lib.Merged) map[string]any {
			return map[string]any{
				"evaluations":         m.Counters["evals"],
				"distinct_nontrivial": m.Distinct["nontrivial"],
				"configurations":      m.Counters["configs"],
				"distinct_cells":      m.Distinct["cells"],
				"rule": "Part A: every set of <=2 (thorough: +1 exception/important) placed rules from 34 rule texts x {block list, custom rules, allow list} x 7 names x 5 qtypes x 2 client addresses, default mode. Part B: 25 small rule sets x 5 modes x 4 protection states x global filtering on/off x 4 client kinds x 5 blocked-service settings x 9 names x 5 qtypes x 2 addresses. Each request runs through HandleBefore+handleDNSRequest of a real server; oracle = composition model (allow list first, important > exception > block, hosts lines, services after rules, protection/filtering gates, mode->response table) + mock-upstream call log. distinct_nontrivial = distinct (configuration, request) pairs where some rule or service decides; distinct_cells = distinct (rule kinds, outcome, stage, mode, flags, qtype) combinations seen",
			}
		},
		Assumptions: []string{"whether a single rule matches a (name, qtype, client) is delegated to urlfilter's rule parser and Match (external dependency)", "for hosts-style rules of the other address family and for blocked non-address query types any synthetic NOERROR answer without upstream data is accepted"},
	})
}
