// C04 — persistent-client registry: precedence and consistency after any
// history of add/update/remove/DHCP changes.  BFS over histories on the real
// client.Storage against a list-of-clients reference (DESIGN.md §4 C04).
package main

import (
	"context"
	"encoding/json"
	"fmt"
	"log/slog"
	"net"
	"net/netip"
	"sort"
	"strings"
	"time"

	"github.com/AdguardTeam/AdGuardHome/internal/client"
	"github.com/AdguardTeam/AdGuardHome/internal/dhcpsvc"
	"github.com/AdguardTeam/AdGuardHome/internal/filtering"
	"github.com/AdguardTeam/AdGuardHome/internal/verifx/lib"
	"github.com/AdguardTeam/golibs/timeutil"
)

// ---- alphabet -------------------------------------------------------------

type op struct {
	Kind   string   `json:"op"`               // add, update, remove, flip
	Target string   `json:"target,omitempty"` // update/remove: stored name; flip: which
	Name   string   `json:"name,omitempty"`
	IDs    []string `json:"ids,omitempty"`
	// Own, bit 0: own settings (+ own upstream); bit 1: own blocked services;
	// bit 2: the client record carries its own values (filtering off, safe
	// browsing, parental, safe search with its filter object, a list of blocked
	// services) whether or not the two switches above are on — what is left in a
	// record after "use global settings" is ticked back on.
	Own int `json:"own,omitempty"`
}

var (
	mac6  = "aa:aa:aa:aa:aa:01"
	mac8  = "aa:aa:aa:aa:aa:aa:aa:02"
	mac20 = "aa:aa:aa:aa:aa:aa:aa:aa:aa:aa:aa:aa:aa:aa:aa:aa:aa:aa:aa:03"
)

// poolOverride, when set, replaces the pool (used by the zoned-address pass).
var poolOverride []string

// dupSets adds, for every identifier, the list that names it twice (both the
// configuration file and the API accept such a list).
var dupSets bool

func pool(quick bool) []string {
	if poolOverride != nil {
		return poolOverride
	}
	if quick {
		return []string{"10.0.0.1", "10.0.0.2", "10.0.0.0/16", "10.0.0.0/30", "10.0.1.0/24", "10.0.1.5/24", mac6, "cid1"}
	}
	return []string{"10.0.0.1", "10.0.0.2", "10.0.0.0/24", "10.0.0.0/16", "10.0.0.0/30", "10.0.0.5/24", "10.0.1.0/24", "10.0.1.5/24", "2001:db8::1", "2001:db8::/64", "2001:db8:0:0:1::/80", mac6, mac8, mac20, "cid1", "cid2"}
}

// DHCP flips: address -> MAC the stub DHCP server reports when the flip is on.
var flips = []struct{ ip, mac string }{{"10.0.0.2", mac6}, {"10.0.1.1", mac8}, {"10.0.0.1", mac20}}

func alphabet(quick bool) []op {
	names := []string{"a", "b", "c"}
	nflips := 3
	if quick {
		names = names[:2]
		nflips = 1
	}
	ids := pool(quick)
	var sets [][]string
	for _, id := range ids {
		sets = append(sets, []string{id})
	}
	for i := range ids {
		for j := i + 1; j < len(ids); j++ {
			sets = append(sets, []string{ids[i], ids[j]})
		}
	}
	if dupSets {
		for _, id := range ids {
			sets = append(sets, []string{id, id})
		}
	}
	var ops []op
	for _, n := range names {
		ops = append(ops, op{Kind: "remove", Target: n})
	}
	for i := 0; i < nflips; i++ {
		ops = append(ops, op{Kind: "flip", Target: fmt.Sprint(i)})
	}
	owns := []int{0, 1, 2, 3, 4}
	if quick {
		// in quick, own settings are only switched on by updates, and every
		// record carries its own values (bit 2) whatever the switches say
		owns = []int{4}
	}
	for _, own := range owns {
		for _, s := range sets {
			for _, n := range names {
				ops = append(ops, op{Kind: "add", Name: n, IDs: s, Own: own})
			}
		}
	}
	updOwns := []int{0, 1, 2, 3, 4}
	if quick {
		// switches: none, own settings only, own blocked services only; the values
		// behind a switch that is off are stored all the same
		updOwns = []int{4, 5, 6}
	}
	for _, own := range updOwns {
		for _, s := range sets {
			for _, t := range names {
				for _, n := range names {
					ops = append(ops, op{Kind: "update", Target: t, Name: n, IDs: s, Own: own})
				}
			}
		}
	}
	return ops
}

// ---- reference model ---------------------------------------------------------

type refClient struct {
	Name string
	IDs  []string // canonical identifier strings
	Own  int
	// SS names the safe-search filter object handed over with the operation
	// that stored the client's current settings.
	SS string
}

// markSS is a client's own safe-search filter (the caller of Add/Update builds
// it from the client's safe-search settings); the tag tells the objects apart.
type markSS struct{ tag string }

func (*markSS) CheckHost(context.Context, string, uint16) (filtering.Result, error) {
	return filtering.Result{}, nil
}
func (*markSS) Update(context.Context, filtering.SafeSearchConfig) error { return nil }

func ssTag(uidN int) string { return fmt.Sprintf("safe-search filter of operation %d", uidN%1000) }

type model struct {
	clients []refClient
	flip    [3]bool
}

func canonID(id string) (kind, canon string) {
	if ip, err := netip.ParseAddr(id); err == nil {
		return "ip", ip.String()
	}
	if p, err := netip.ParsePrefix(id); err == nil {
		return "subnet", p.String()
	}
	if m, err := net.ParseMAC(id); err == nil {
		return "mac", m.String()
	}
	return "clientid", strings.ToLower(id)
}

func (m *model) owner(kind, canon string, except string) (string, bool) {
	for _, c := range m.clients {
		if c.Name == except {
			continue
		}
		for _, id := range c.IDs {
			k, cn := canonID(id)
			if k == kind && cn == canon {
				return c.Name, true
			}
		}
	}
	return "", false
}

func (m *model) byName(n string) int {
	for i, c := range m.clients {
		if c.Name == n {
			return i
		}
	}
	return -1
}

// apply returns whether the reference accepts o.
func (m *model) apply(o op) bool {
	switch o.Kind {
	case "add":
		if m.byName(o.Name) >= 0 {
			return false
		}
		for _, id := range o.IDs {
			k, cn := canonID(id)
			if _, taken := m.owner(k, cn, ""); taken {
				return false
			}
		}
		m.clients = append(m.clients, refClient{Name: o.Name, IDs: o.IDs, Own: o.Own})
		return true
	case "update":
		i := m.byName(o.Target)
		if i < 0 {
			return false
		}
		if o.Name != o.Target && m.byName(o.Name) >= 0 {
			return false
		}
		for _, id := range o.IDs {
			k, cn := canonID(id)
			if _, taken := m.owner(k, cn, o.Target); taken {
				return false
			}
		}
		m.clients[i] = refClient{Name: o.Name, IDs: o.IDs, Own: o.Own}
		return true
	case "remove":
		i := m.byName(o.Target)
		if i < 0 {
			return false
		}
		m.clients = append(m.clients[:i:i], m.clients[i+1:]...)
		return true
	case "flip":
		var i int
		fmt.Sscan(o.Target, &i)
		m.flip[i] = !m.flip[i]
		return true
	}
	panic("op")
}

func (m *model) macByIP(ip netip.Addr) net.HardwareAddr {
	for i, f := range flips {
		if m.flip[i] && f.ip == ip.String() {
			mac, _ := net.ParseMAC(f.mac)
			return mac
		}
	}
	return nil
}

// expectOwners returns the set of acceptable owners for a request carrying
// (clientID, addr); empty set means "no client".  withDHCP selects whether the
// DHCP-lease MAC is the last resort.
func (m *model) expectOwners(clientID string, addr netip.Addr, withDHCP bool) map[string]bool {
	res := map[string]bool{}
	if clientID != "" {
		if n, ok := m.owner("clientid", clientID, ""); ok {
			res[n] = true
			return res
		}
	}
	if !addr.IsValid() {
		return res
	}
	if n, ok := m.owner("ip", addr.String(), ""); ok {
		res[n] = true
		return res
	}
	best := -1
	for _, c := range m.clients {
		for _, id := range c.IDs {
			if p, err := netip.ParsePrefix(id); err == nil && p.Contains(addr.WithZone("")) {
				if p.Bits() > best {
					best = p.Bits()
					res = map[string]bool{}
				}
				if p.Bits() == best {
					res[c.Name] = true
				}
			}
		}
	}
	if len(res) > 0 {
		return res
	}
	if withDHCP {
		if mac := m.macByIP(addr); mac != nil {
			if n, ok := m.owner("mac", mac.String(), ""); ok {
				res[n] = true
			}
		}
	}
	return res
}

// ---- implementation driver ---------------------------------------------------

type dhcpStub struct{ m *model }

func (d dhcpStub) Leases() []*dhcpsvc.Lease               { return nil }
func (d dhcpStub) HostByIP(netip.Addr) string             { return "" }
func (d dhcpStub) MACByIP(ip netip.Addr) net.HardwareAddr { return d.m.macByIP(ip) }

var discard = slog.New(slog.NewTextHandler(devNull{}, &slog.HandlerOptions{Level: slog.LevelError + 4}))

type devNull struct{}

func (devNull) Write(p []byte) (int, error) { return len(p), nil }

func mkPersistent(o op, uidN int) *client.Persistent {
	p := &client.Persistent{Name: o.Name, BlockedServices: &filtering.BlockedServices{}}
	var uid client.UID
	uid[0], uid[1], uid[15] = byte(uidN>>8), byte(uidN), 1
	p.UID = uid
	if err := p.SetIDs(o.IDs); err != nil {
		panic(err)
	}
	p.UseOwnSettings = o.Own&1 != 0
	if o.Own&(1|4) != 0 {
		p.FilteringEnabled = false
		p.SafeBrowsingEnabled = true
		p.ParentalEnabled = true
		p.SafeSearchConf.Enabled = true
		p.SafeSearchConf.Google = uidN%2 == 0
		p.SafeSearch = &markSS{tag: ssTag(uidN)}
	}
	if o.Own&1 != 0 {
		p.Upstreams = []string{"1.1.1.1"}
	}
	p.UseOwnBlockedServices = o.Own&2 != 0
	if o.Own&(2|4) != 0 {
		p.BlockedServices = &filtering.BlockedServices{IDs: []string{"svc_" + o.Name}}
	}
	return p
}

func dumpKey(s *client.Storage) (string, []*client.Persistent, []client.VerifIndexEntry) {
	cs, es := client.VerifDump(s)
	var sb strings.Builder
	for _, c := range cs {
		fmt.Fprintf(&sb, "C %s %v own=%v,%v bs=%v up=%v ss=%v|", c.Name, c.IDs(), c.UseOwnSettings, c.UseOwnBlockedServices, c.BlockedServices.IDs, c.Upstreams, c.SafeSearch != nil)
	}
	for _, e := range es {
		fmt.Fprintf(&sb, "%s:%s>%s|", e.Kind, e.ID, e.Owner)
	}
	return sb.String(), cs, es
}

var probeAddrs = []string{"fe80::1%eth0", "fe80::1", "fe80::2%eth0", "fe80:1::1%eth1", "10.0.0.1", "10.0.0.2", "10.0.0.9", "10.0.1.1", "10.0.1.5", "10.0.2.1", "10.1.0.1", "2001:db8::1", "2001:db8::2", "2001:db8::1:0:0:1", "2001:db9::1"}
var probeCIDs = []string{"", "cid1", "cid2", "cidx", "cidup"}

const (
	mac8dash  = "aa-aa-aa-aa-aa-aa-aa-03"
	mac8colon = "aa:aa:aa:aa:aa:aa:aa:03"
)

func names(set map[string]bool) string {
	var l []string
	for k := range set {
		l = append(l, k)
	}
	sort.Strings(l)
	if len(l) == 0 {
		return "(none)"
	}
	return strings.Join(l, "|")
}

// exec replays hist on a fresh storage and checks the oracle after the last op.
func exec(hist []op) lib.Step {
	ctx := context.Background()
	m := &model{}
	s, err := client.NewStorage(ctx, &client.StorageConfig{Logger: discard, Clock: timeutil.SystemClock{}, DHCP: dhcpStub{m}})
	if err != nil {
		panic(err)
	}
	defer s.Shutdown(ctx)
	s.UpdateCommonUpstreamConfig(&client.CommonUpstreamConfig{UpstreamTimeout: time.Second})
	var st lib.Step
	fail := func(key, format string, a ...any) lib.Step {
		st.VKey, st.VDesc = key, fmt.Sprintf(format, a...)+"\nhistory: "+jsonStr(hist)
		return st
	}
	for i, o := range hist {
		lastOp := i == len(hist)-1
		var before string
		if lastOp {
			before, _, _ = dumpKey(s)
		}
		ownersBefore := ""
		if lastOp {
			ownersBefore = ownerMap(m)
		}
		want := m.apply(o)
		if want && (o.Kind == "add" || o.Kind == "update") && o.Own&1 != 0 {
			m.clients[m.byName(o.Name)].SS = ssTag(i + 1)
		}
		var got bool
		switch o.Kind {
		case "add":
			got = s.Add(ctx, mkPersistent(o, i+1)) == nil
		case "update":
			got = s.Update(ctx, o.Target, mkPersistent(o, 1000+i+1)) == nil
		case "remove":
			got = s.RemoveByName(ctx, o.Target)
		case "flip":
			got = true
		}
		if !lastOp {
			continue
		}
		st.Outcome = fmt.Sprintf("%s:%v", o.Kind, got)
		if got != want {
			return fail("accept:"+o.Kind, "%s accepted=%v, reference says %v (op %s)", o.Kind, got, want, jsonStr(o))
		}
		after, _, _ := dumpKey(s)
		if !got && after != before {
			return fail("rejected-op-changed-registry:"+o.Kind, "rejected %s changed the registry:\nbefore %s\nafter  %s", o.Kind, before, after)
		}
		st.NonTrivial = ownerMap(m) != ownersBefore
	}
	key, cs, es := dumpKey(s)
	// Index invariant: entries <-> client fields.
	wantEntries := map[string]string{}
	for _, c := range cs {
		wantEntries["name:"+c.Name] = c.Name
		for _, ip := range c.IPs {
			wantEntries["ip:"+ip.String()] = c.Name
		}
		for _, p := range c.Subnets {
			wantEntries["subnet:"+p.String()] = c.Name
		}
		for _, mac := range c.MACs {
			wantEntries["mac:"+fmt.Sprintf("%x", []byte(mac))] = c.Name
		}
		for _, id := range c.ClientIDs {
			wantEntries["clientid:"+id] = c.Name
		}
	}
	gotEntries := map[string]string{}
	for _, e := range es {
		k := e.Kind + ":" + e.ID
		if _, dup := gotEntries[k]; dup {
			return fail("index:duplicate-entry", "index entry %s listed twice", k)
		}
		gotEntries[k] = e.Owner
	}
	for k, o := range gotEntries {
		if wantEntries[k] != o {
			return fail("index:stale-or-wrong-entry:"+strings.SplitN(k, ":", 2)[0], "index entry %s -> %q but stored clients say %q\ndump %s", k, o, wantEntries[k], key)
		}
	}
	for k, o := range wantEntries {
		if gotEntries[k] != o {
			return fail("index:missing-entry:"+strings.SplitN(k, ":", 2)[0], "client %q lists %s but the index maps it to %q\ndump %s", o, k, gotEntries[k], key)
		}
	}
	// Stored clients equal the reference.
	if len(cs) != len(m.clients) {
		return fail("registry:size", "registry holds %d clients, reference %d\ndump %s", len(cs), len(m.clients), key)
	}
	if s.Size() != len(m.clients) {
		return fail("registry:size", "Size()=%d, reference %d", s.Size(), len(m.clients))
	}
	var ranged []string
	s.RangeByName(func(c *client.Persistent) bool { ranged = append(ranged, c.Name); return true })
	var refNames []string
	for _, c := range m.clients {
		refNames = append(refNames, c.Name)
	}
	sort.Strings(refNames)
	if strings.Join(ranged, ",") != strings.Join(refNames, ",") {
		return fail("registry:range", "RangeByName yields %v, reference %v", ranged, refNames)
	}
	for _, n := range []string{"a", "b", "c"} {
		p, ok := s.FindByName(n)
		i := m.byName(n)
		if ok != (i >= 0) {
			return fail("findbyname", "FindByName(%q) found=%v, reference %v", n, ok, i >= 0)
		}
		if ok {
			var want []string
			for _, id := range m.clients[i].IDs {
				_, cn := canonID(id)
				want = append(want, cn)
			}
			got := p.IDs()
			sort.Strings(want)
			sort.Strings(got)
			if strings.Join(want, ",") != strings.Join(got, ",") || p.UseOwnSettings != (m.clients[i].Own&1 != 0) || p.UseOwnBlockedServices != (m.clients[i].Own&2 != 0) {
				return fail("findbyname:content", "FindByName(%q) = ids %v own=%v, reference ids %v own=%v", n, got, p.UseOwnSettings, want, m.clients[i].Own)
			}
		}
	}
	// Lookups by every identifier kind.
	for _, a := range probeAddrs {
		addr := netip.MustParseAddr(a)
		for _, cid := range probeCIDs {
			exp := m.expectOwners(cid, addr, true)
			setts := &filtering.Settings{FilteringEnabled: true}
			s.ApplyClientFiltering(cid, addr, setts)
			if (setts.ClientName == "" && len(exp) != 0) || (setts.ClientName != "" && !exp[setts.ClientName]) {
				return fail("precedence:apply", "ApplyClientFiltering(clientid=%q, addr=%s) attributes the request to %q, reference owner %s\ndump %s", cid, a, setts.ClientName, names(exp), key)
			}
			if setts.ClientName != "" {
				rc := m.clients[m.byName(setts.ClientName)]
				wantFE, wantSB, wantPar, wantSS := true, false, false, false
				var wantBS []string
				if rc.Own&1 != 0 {
					wantFE, wantSB, wantPar, wantSS = false, true, true, true
				}
				if rc.Own&2 != 0 {
					wantBS = []string{"svc_" + rc.Name}
				}
				var gotBS []string
				if setts.BlockedServices != nil {
					gotBS = setts.BlockedServices.IDs
				}
				gotSS := ""
				if ms, ok := setts.ClientSafeSearch.(*markSS); ok && ms != nil {
					gotSS = ms.tag
				}
				if gotSS != "" && rc.Own&1 == 0 {
					return fail("settings:own-safe-search-filter-while-using-global-settings", "client %q (own flags=%d) does not opt out of the global settings, yet the request is given the client's own safe-search filter %q", rc.Name, rc.Own, gotSS)
				}
				if gotSS != rc.SS {
					return fail("settings:safe-search-filter-of-earlier-settings", "client %q (own flags=%d): the request is given %q, the client's current settings were stored with %q", rc.Name, rc.Own, gotSS, rc.SS)
				}
				if setts.FilteringEnabled != wantFE || setts.SafeBrowsingEnabled != wantSB || setts.ParentalEnabled != wantPar || setts.SafeSearchEnabled != wantSS || strings.Join(gotBS, ",") != strings.Join(wantBS, ",") {
					return fail("settings", "client %q (own flags=%d): got filtering=%v sb=%v parental=%v safesearch=%v services=%v", rc.Name, rc.Own, setts.FilteringEnabled, setts.SafeBrowsingEnabled, setts.ParentalEnabled, setts.SafeSearchEnabled, gotBS)
				}
			} else if !setts.FilteringEnabled || setts.SafeBrowsingEnabled || setts.BlockedServices != nil {
				return fail("settings:none", "no client found but settings changed: %+v", setts)
			}
			// FindLoose: ClientID, then DHCP MAC, then address (documented order differs from request attribution; only check found/none and ClientID precedence).
			// Upstream configuration: ClientID > IP > CIDR, no DHCP.
			expU := m.expectOwners(cid, addr, false)
			uc := s.CustomUpstreamConfig(cid, addr)
			wantU := false
			for n := range expU {
				if m.clients[m.byName(n)].Own&1 != 0 {
					wantU = true
				}
			}
			amb := false
			if len(expU) > 1 {
				first := true
				var v bool
				for n := range expU {
					o := m.clients[m.byName(n)].Own&1 != 0
					if first {
						v, first = o, false
					} else if o != v {
						amb = true
					}
				}
			}
			if !amb && (uc != nil) != wantU {
				return fail("upstreams", "CustomUpstreamConfig(clientid=%q, addr=%s) present=%v, reference (owner %s) says %v", cid, a, uc != nil, names(expU), wantU)
			}
		}
		// Find by address string.
		exp := m.expectOwners("", addr, true)
		p, ok := s.Find(a)
		if (!ok && len(exp) != 0) || (ok && !exp[p.Name]) {
			got := "(none)"
			if ok {
				got = p.Name
			}
			return fail("precedence:find-ip", "Find(%q) = %s, reference owner %s\ndump %s", a, got, names(exp), key)
		}
	}
	// "cidup" is how a request spells the ClientID entered as "CidUp"; mac8colon
	// is how a lease table spells the EUI-64 address entered with dashes (it is
	// also a well-formed IPv6 literal).
	for _, id := range []string{"cid1", "cid2", mac6, mac8, mac20, "cidup", mac8colon} {
		k, cn := canonID(id)
		wantN, wantOK := m.owner(k, cn, "")
		if hw, err := net.ParseMAC(id); !wantOK && k == "ip" && err == nil {
			// The text is both an address and a hardware address: owned by nobody
			// as an address, it is looked up as the hardware address it also is.
			wantN, wantOK = m.owner("mac", hw.String(), "")
		}
		p, ok := s.Find(id)
		if ok != wantOK || (ok && p.Name != wantN) {
			return fail("find-id:"+k, "Find(%q) found=%v, reference owner %q (found=%v)\ndump %s", id, ok, wantN, wantOK, key)
		}
	}
	st.Key = key + fmt.Sprint(m.flip)
	return st
}

func ownerMap(m *model) string {
	var sb strings.Builder
	for _, c := range m.clients {
		ids := append([]string{}, c.IDs...)
		sort.Strings(ids)
		fmt.Fprintf(&sb, "%s=%v;", c.Name, ids)
	}
	return sb.String()
}

func jsonStr(v any) string {
	b, _ := json.Marshal(v)
	return string(b)
}

// zonedPass: link-local IPv6 identifiers with a zone (kept by exact
// identifiers, ignored by containing networks).
func zonedPass(c *lib.Ctx) {
	poolOverride = []string{"fe80::1%eth0", "fe80::1", "fe80::/16", "fe80::/64"}
	defer func() { poolOverride = nil }()
	ops := alphabet(true)
	c.Note("alphabet_zoned_pass", fmt.Sprintf("%d operations over identifier pool %v, depth 3", len(ops), poolOverride))
	b := &lib.BFS[op]{C: c, Ops: ops, Exec: exec, MaxDepth: 3, Workers: 16, Confirm: true}
	b.Run()
}

// spellingPass: identifiers entered in another spelling than the one they are
// looked up by: a ClientID with capital letters, an EUI-64 hardware address
// written with dashes.
func spellingPass(c *lib.Ctx) {
	poolOverride = []string{mac8dash, "CidUp", "cidup", "10.0.0.1"}
	defer func() { poolOverride = nil }()
	ops := alphabet(true)
	c.Note("alphabet_spelling_pass", fmt.Sprintf("%d operations over identifier pool %v, depth 3", len(ops), poolOverride))
	b := &lib.BFS[op]{C: c, Ops: ops, Exec: exec, MaxDepth: 3, Workers: 16, Confirm: true}
	b.Run()
}

// dupPass: identifier lists that name one identifier twice.
func dupPass(c *lib.Ctx) {
	poolOverride = []string{"10.0.0.0/16", "10.0.1.0/24", "10.0.0.1", "cid1"}
	dupSets = true
	defer func() { poolOverride, dupSets = nil, false }()
	ops := alphabet(true)
	c.Note("alphabet_duplicate_pass", fmt.Sprintf("%d operations over identifier pool %v, lists of one, two different and the same identifier twice, depth 3", len(ops), poolOverride))
	b := &lib.BFS[op]{C: c, Ops: ops, Exec: exec, MaxDepth: 3, Workers: 16, Confirm: true}
	b.Run()
}

func run(c *lib.Ctx) {
	zonedPass(c)
	dupPass(c)
	spellingPass(c)
	if c.Quick() {
		ops := alphabet(true)
		c.Note("alphabet", fmt.Sprintf("%d operations over identifier pool %v", len(ops), pool(true)))
		b := &lib.BFS[op]{C: c, Ops: ops, Exec: exec, MaxDepth: 3, Workers: 16, Confirm: true}
		b.Run()
		return
	}
	// Thorough, pass 1: the quick alphabet (2 names, 8 colliding identifiers) until
	// no new state appears (closure) or depth 8.
	ops := alphabet(true)
	c.Note("alphabet_pass1", fmt.Sprintf("%d operations over identifier pool %v, explored to closure", len(ops), pool(true)))
	b := &lib.BFS[op]{C: c, Ops: ops, Exec: exec, MaxDepth: 8, Workers: 16, Confirm: true}
	b.Run()
	c.Note("pass1_depth_completed", fmt.Sprint(c.MaxOf("max_depth")))
	if c.Expired() {
		return
	}
	// Pass 2: 3 names, 16 identifiers; depth 3 as far as the budget allows.
	ops = alphabet(false)
	c.Note("alphabet_pass2", fmt.Sprintf("%d operations over identifier pool %v", len(ops), pool(false)))
	b = &lib.BFS[op]{C: c, Ops: ops, Exec: exec, MaxDepth: 3, Workers: 16, Confirm: true}
	b.Run()
}

func replay(c *lib.Ctx, raw json.RawMessage) string {
	var hist []op
	if err := json.Unmarshal(raw, &hist); err != nil {
		return err.Error()
	}
	st := exec(hist)
	if st.VKey != "" {
		return st.VKey + ": " + st.VDesc
	}
	return ""
}

func main() {
	lib.Main(&lib.Harness{
		Prop: "C04", Level: "model_checking",
		Shards: func(string) int { return 1 },
		Budget: func(tier string) time.Duration {
			if tier == "thorough" {
				return 25 * time.Minute
			}
			return 3 * time.Minute
		},
		Run: run, Replay: replay,
		Evidence: func(m *lib.Merged) map[string]any {
			return map[string]any{
				"states":                        m.Distinct["states"],
				"transitions":                   m.Counters["transitions"],
				"traces_validated_against_impl": m.Counters["transitions"],
				"evaluations":                   m.Counters["transitions"],
				"distinct_nontrivial":           m.Distinct["nontrivial"],
				"distinct_outcomes":             m.Distinct["outcomes"],
				"max_depth":                     m.Maxes["max_depth"],
				"rule":                          "BFS over add/update/remove/DHCP-flip histories on the real client.Storage; a state is (dump of the five index maps and stored clients, DHCP table); every transition is executed on the real code and compared with a list-of-clients reference for accept/reject, unchanged-on-reject, index consistency and every lookup; client records are stored with and without their own settings values independently of the use-own switches, and the effective settings must carry the own values (incl. the own safe-search filter object and blocked services) exactly when the switch is on (11 probe addresses x 4 ClientIDs x Find/ApplyClientFiltering/CustomUpstreamConfig). non-trivial = transition that changes which client owns some identifier",
			}
		},
		Assumptions: []string{"between equally specific stored prefixes that both contain an address either owner is accepted", "4-in-6 and zoned probe addresses are not in the probe set"},
	})
}
