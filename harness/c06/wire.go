package main

// Part 2: the response the client sees and the upstream call log, through a
// real dnsforward.Server (dnsforward.VerifNewServer) with a recording mock
// upstream.

import (
	"fmt"
	"net/http"
	"net/http/httptest"
	"net/netip"
	"os"
	"runtime/debug"
	"sort"
	"strings"

	"github.com/AdguardTeam/AdGuardHome/internal/dnsforward"
	"github.com/AdguardTeam/AdGuardHome/internal/filtering"
	"github.com/AdguardTeam/dnsproxy/proxy"
	"github.com/miekg/dns"
)

var modes = []string{"records", "nodata", "nxdomain"}

// mockUp is the recording upstream.
type mockUp struct {
	mode  string
	calls []dns.Question
}

func (u *mockUp) Exchange(req *dns.Msg) (resp *dns.Msg, err error) {
	q := req.Question[0]
	u.calls = append(u.calls, q)
	resp = new(dns.Msg).SetReply(req)
	switch u.mode {
	case "nxdomain":
		resp.Rcode = dns.RcodeNameError
	case "nodata":
	default:
		hdr := dns.RR_Header{Name: q.Name, Rrtype: q.Qtype, Class: dns.ClassINET, Ttl: 60}
		switch q.Qtype {
		case dns.TypeA:
			resp.Answer = []dns.RR{&dns.A{Hdr: hdr, A: []byte{9, 9, 9, 9}}}
		case dns.TypeAAAA:
			resp.Answer = []dns.RR{&dns.AAAA{Hdr: hdr, AAAA: netip.MustParseAddr("9::9").AsSlice()}}
		default:
			resp.Answer = []dns.RR{&dns.TXT{Hdr: hdr, Txt: []string{"from-upstream"}}}
		}
	}
	return resp, nil
}

func (u *mockUp) Address() string { return "mock://c06" }
func (u *mockUp) Close() error    { return nil }

const upstreamA, upstreamAAAA = "9.9.9.9", "9::9"

type wire struct {
	s   *dnsforward.Server
	f   *filtering.DNSFilter
	up  *mockUp
	rid uint64
}

func newWire(dataDir string, table []entry) (w *wire, err error) {
	defer func() {
		if r := recover(); r != nil {
			err = fmt.Errorf("PANIC building the server: %v\n%s", r, debug.Stack())
		}
	}()
	f, err := newServerFilter(dataDir, table)
	if err != nil {
		return nil, err
	}
	f.SetEnabled(true)
	up := &mockUp{}
	s, err := dnsforward.VerifNewServer(&dnsforward.VerifServerParams{Filter: f, Upstream: up, Conf: dnsforward.ServerConfig{
		Config:        dnsforward.Config{EDNSClientSubnet: &dnsforward.EDNSClientSubnet{Enabled: false}},
		ServePlainDNS: true,
	}})
	if err != nil {
		return nil, err
	}
	return &wire{s: s, f: f, up: up}, nil
}

// newWireViaAPI builds the server for table with a placeholder in the place of
// the last entry and lets the rewrite API put the real entry there.
func newWireViaAPI(dataDir string, table []entry) (w *wire, err error) {
	if len(table) == 0 {
		return newWire(dataDir, table)
	}
	last := table[len(table)-1]
	ph := entry{Domain: "placeholder.test", Answer: "9.9.9.9"}
	start := append(append([]entry{}, table[:len(table)-1]...), ph)
	w, err = newWire(dataDir, start)
	if err != nil {
		return nil, err
	}
	body := fmt.Sprintf(`{"target":{"domain":%q,"answer":%q},"update":{"domain":%q,"answer":%q}}`, ph.Domain, ph.Answer, last.Domain, last.Answer)
	rec := httptest.NewRecorder()
	w.f.VerifRewriteUpdate(rec, httptest.NewRequest(http.MethodPut, "/control/rewrite/update", strings.NewReader(body)))
	if rec.Code != http.StatusOK {
		return nil, fmt.Errorf("PUT /control/rewrite/update answered %d: %s", rec.Code, rec.Body.String())
	}
	return w, nil
}

// wireObs is what one request produced.
type wireObs struct {
	Err   string
	Calls []dns.Question
	Res   *dns.Msg
}

func (w *wire) exchange(host string, qt uint16, mode string) (o wireObs) {
	w.up.mode, w.up.calls = mode, nil
	w.rid++
	req := &dns.Msg{MsgHdr: dns.MsgHdr{Id: uint16(1000 + w.rid%50000), RecursionDesired: true},
		Question: []dns.Question{{Name: dns.Fqdn(host), Qtype: qt, Qclass: dns.ClassINET}}}
	pctx := &proxy.DNSContext{Req: req, Addr: netip.MustParseAddrPort("1.2.3.4:5"), Proto: proxy.ProtoUDP, RequestID: w.rid}
	func() {
		defer func() {
			if r := recover(); r != nil {
				o.Err = fmt.Sprintf("PANIC: %v", r)
				if os.Getenv("C06_STACK") != "" {
					o.Err += "\n" + string(debug.Stack())
				}
			}
		}()
		before, err := w.s.VerifHandle(pctx)
		if before != nil {
			o.Err = "before-request hook: " + before.Error()
		} else if err != nil {
			o.Err = err.Error()
		}
	}()
	o.Calls = w.up.calls
	o.Res = pctx.Res
	return o
}

// describe renders an observation compactly and deterministically.
func (o wireObs) describe() string {
	var sb strings.Builder
	if o.Err != "" {
		sb.WriteString("err=" + o.Err + " ")
	}
	sb.WriteString("upstream_calls=[")
	for i, q := range o.Calls {
		if i > 0 {
			sb.WriteString(" ")
		}
		sb.WriteString(q.Name + "/" + dns.TypeToString[q.Qtype])
	}
	sb.WriteString("]")
	if o.Res == nil {
		sb.WriteString(" reply=nil")
		return sb.String()
	}
	sb.WriteString(" rcode=" + dns.RcodeToString[o.Res.Rcode] + " question=[")
	for i, q := range o.Res.Question {
		if i > 0 {
			sb.WriteString(" ")
		}
		sb.WriteString(q.Name + "/" + dns.TypeToString[q.Qtype])
	}
	sb.WriteString("] answer=[")
	for i, rr := range o.Res.Answer {
		if i > 0 {
			sb.WriteString(" ")
		}
		sb.WriteString(rrStr(rr))
	}
	sb.WriteString("]")
	return sb.String()
}

func rrStr(rr dns.RR) string {
	h := rr.Header()
	switch v := rr.(type) {
	case *dns.CNAME:
		return h.Name + " CNAME " + v.Target
	case *dns.A:
		return h.Name + " A " + v.A.String()
	case *dns.AAAA:
		return h.Name + " AAAA " + v.AAAA.String()
	case *dns.TXT:
		return h.Name + " TXT " + strings.Join(v.Txt, "")
	}
	return h.Name + " " + dns.TypeToString[h.Rrtype]
}

// kind classifies an observation for violation keys and coverage.
func (o wireObs) kind(host string, full bool) string {
	if o.Err != "" {
		if strings.HasPrefix(o.Err, "PANIC") {
			return "panic"
		}
		return "error"
	}
	if o.Res == nil {
		return "no-reply"
	}
	k := "no-upstream"
	if len(o.Calls) > 0 {
		k = "upstream(original)"
		for _, q := range o.Calls {
			if !strings.EqualFold(q.Name, dns.Fqdn(host)) {
				k = "upstream(canonical)"
			}
		}
	}
	cn, addrs := false, 0
	for _, rr := range o.Res.Answer {
		switch rr.(type) {
		case *dns.CNAME:
			cn = true
		default:
			addrs++
		}
	}
	if cn {
		k += "+cname"
	}
	if len(o.Res.Question) != 1 || !strings.EqualFold(o.Res.Question[0].Name, dns.Fqdn(host)) {
		k += "+question-not-restored"
	}
	if !full {
		return k
	}
	if addrs > 0 {
		k += "+records"
	}
	return k + "+" + dns.RcodeToString[o.Res.Rcode]
}

// matchLeaf checks an observation against one acceptable leaf; it returns ""
// if it fits, else the first failed demand.
func matchLeaf(l leaf, host string, qt uint16, mode string, o wireObs) (why string) {
	if o.Err != "" {
		return "the request fails: " + o.Err
	}
	res := o.Res
	if res == nil {
		return "no reply"
	}
	fq := dns.Fqdn(host)
	if len(res.Question) != 1 || !strings.EqualFold(res.Question[0].Name, fq) || res.Question[0].Qtype != qt {
		return "the reply does not carry the original question"
	}
	if !res.Response {
		return "the reply is not a response"
	}
	if l.Kind == lAny {
		return ""
	}
	upRcode := dns.RcodeSuccess
	if mode == "nxdomain" {
		upRcode = dns.RcodeNameError
	}
	// Split the answer section.
	var cnames []*dns.CNAME
	var addrs, others []string
	for _, rr := range res.Answer {
		switch v := rr.(type) {
		case *dns.CNAME:
			cnames = append(cnames, v)
		case *dns.A:
			addrs = append(addrs, "A "+v.A.String())
		case *dns.AAAA:
			// A 16-byte record is an IPv6 address also when net.IP prints it as
			// dotted quad (IPv4-mapped).
			a16, _ := netip.AddrFromSlice(v.AAAA.To16())
			addrs = append(addrs, "AAAA "+a16.String())
		default:
			others = append(others, rrStr(rr))
		}
	}
	sort.Strings(addrs)
	cnameOK := func(canon string) string {
		if canon == "" {
			if len(cnames) > 0 {
				return "unexpected CNAME record"
			}
			return ""
		}
		if len(cnames) != 1 {
			return fmt.Sprintf("want exactly one CNAME record %s -> %s, got %d", fq, canon, len(cnames))
		}
		if _, first := res.Answer[0].(*dns.CNAME); !first {
			return "the CNAME record is not the first answer"
		}
		if !strings.EqualFold(cnames[0].Hdr.Name, fq) || cnames[0].Target != dns.Fqdn(canon) {
			return fmt.Sprintf("CNAME record is %s -> %s, want %s -> %s", cnames[0].Hdr.Name, cnames[0].Target, fq, dns.Fqdn(canon))
		}
		return ""
	}
	upstreamAnswer := func() []string {
		if mode != "records" {
			return nil
		}
		switch qt {
		case qA:
			return []string{"A " + upstreamA}
		case qAAAA:
			return []string{"AAAA " + upstreamAAAA}
		}
		return nil
	}
	askedOnly := func(name string) string {
		if len(o.Calls) == 0 {
			return "the upstream is not asked"
		}
		for _, q := range o.Calls {
			if !strings.EqualFold(q.Name, dns.Fqdn(name)) || q.Qtype != qt {
				return fmt.Sprintf("the upstream is asked for %s/%s, want %s/%s", q.Name, dns.TypeToString[q.Qtype], dns.Fqdn(name), dns.TypeToString[qt])
			}
		}
		return ""
	}
	switch l.Kind {
	case lPass:
		if w := askedOnly(host); w != "" {
			return w
		}
		if res.Rcode != upRcode {
			return "the reply code is not the upstream's"
		}
		if w := cnameOK(""); w != "" {
			return w
		}
		if fmt.Sprint(addrs) != fmt.Sprint(upstreamAnswer()) {
			return fmt.Sprintf("address records %v are not the upstream's %v", addrs, upstreamAnswer())
		}
		if mode == "records" && qt == qTXT && len(others) != 1 {
			return "the upstream's TXT record is missing"
		}
	case lIPs:
		if len(o.Calls) > 0 {
			return "the upstream is asked although the table answers"
		}
		if res.Rcode != dns.RcodeSuccess {
			return "the reply code is not NOERROR"
		}
		if w := cnameOK(l.Canon); w != "" {
			return w
		}
		var want []string
		for _, ip := range l.IPs {
			want = append(want, qtName(qt)+" "+ip)
		}
		sort.Strings(want)
		if fmt.Sprint(dedup(addrs)) != fmt.Sprint(want) {
			return fmt.Sprintf("address records %v, want %v", addrs, want)
		}
		if len(others) > 0 {
			return "unexpected records " + fmt.Sprint(others)
		}
	case lUp:
		if w := askedOnly(l.Canon); w != "" {
			return w
		}
		if w := cnameOK(l.Canon); w != "" {
			return w
		}
		if mode != "nxdomain" && res.Rcode != upRcode {
			return "the reply code is not the upstream's"
		}
		if fmt.Sprint(addrs) != fmt.Sprint(upstreamAnswer()) {
			return fmt.Sprintf("address records %v are not the upstream's %v", addrs, upstreamAnswer())
		}
	case lEmpty:
		if len(o.Calls) > 0 {
			return "the upstream is asked although the name is matched by the table without a value for the type"
		}
		if res.Rcode != dns.RcodeSuccess {
			return "the reply code is not NOERROR"
		}
		if len(addrs) > 0 || len(others) > 0 {
			return fmt.Sprintf("the answer is not empty: %v %v", addrs, others)
		}
		// Reached through a CNAME entry, the reply carries that CNAME and nothing
		// else (AGHTechDoc, "CNAME+A records": the AAAA question for the alias).
		if w := cnameOK(l.Canon); w != "" {
			return w
		}
	}
	return ""
}

func leafName(l leaf) string {
	switch l.Kind {
	case lPass:
		return "pass-through(upstream asked for the original name)"
	case lIPs:
		return fmt.Sprintf("table-answer(cname=%q ips=%v, no upstream)", l.Canon, l.IPs)
	case lUp:
		return fmt.Sprintf("cname-upstream(upstream asked for %q, CNAME + original question in the reply)", l.Canon)
	case lEmpty:
		return fmt.Sprintf("empty-noerror(cname=%q, no upstream)", l.Canon)
	}
	return "cycle(any terminating reply with the original question)"
}

func leafKindName(l leaf) string {
	return [...]string{"pass", "table-answer", "cname-upstream", "empty", "cycle-any"}[l.Kind]
}

// checkWire runs one request and compares it with the reference leaves.
func (e *env) checkWire(table []entry, q query, mode string, ref *refResult, w *wire) {
	c := e.c
	cs := caseT{Part: "wire", Table: table, Host: q.Host, QType: q.QT, Mode: mode}
	if w == nil {
		var err error
		if w, err = newWire(c.TmpDir, table); err != nil {
			c.Violation("wire:server-build-fails", fmt.Sprintf("table %s: %v", tableStr(table), err), cs)
			return
		}
	}
	e.g.cur.Store(&cs)
	o := w.exchange(q.Host, q.QT, mode)
	e.g.beat.Add(1)
	c.Count("wire_requests", 1)
	kind := o.kind(q.Host, false)
	if ref.Matched {
		c.Distinct("wire", mode+":"+qtName(q.QT)+":"+o.kind(q.Host, true))
	}
	if kind == "panic" {
		cs.Got = o.Err
		c.Violation("panic:wire", fmt.Sprintf("the request handler panics: %s; table %s, query %s %s, upstream %s", o.Err, tableStr(table), q.Host, qtName(q.QT), mode), cs)
		return
	}
	// The canonical name the client was given, to pick the leaves the failure
	// is about (ties produce several leaves with different names).
	obsCanon := ""
	if o.Res != nil {
		for _, rr := range o.Res.Answer {
			if cn, ok := rr.(*dns.CNAME); ok {
				obsCanon = strings.TrimSuffix(cn.Target, ".")
				break
			}
		}
	}
	var whys, exp, expAll []string
	seen := map[string]bool{}
	emptyWanted := false
	for _, l := range ref.Leaves {
		why := matchLeaf(l, q.Host, q.QT, mode, o)
		if why == "" {
			return
		}
		if n := leafName(l); !seen[n] {
			seen[n] = true
			whys = append(whys, n+": "+why)
		}
		k := leafKindName(l)
		if !contains(expAll, k) {
			expAll = append(expAll, k)
		}
		if l.Canon == obsCanon && l.Kind != lAny {
			if !contains(exp, k) {
				exp = append(exp, k)
			}
			if l.Kind == lEmpty {
				emptyWanted = true
			}
		}
	}
	if len(exp) == 0 {
		exp = expAll
	}
	sort.Strings(exp)
	cs.Got = o.describe()
	cs.Accept = whys
	key := "wire:exp=" + strings.Join(exp, "|") + ":got=" + kind
	if strings.Contains(kind, "+question-not-restored") {
		key = "wire:question-not-restored:" + strings.Replace(kind, "+question-not-restored", "", 1)
	}
	if emptyWanted && strings.HasPrefix(kind, "upstream(canonical)+cname") {
		key = "wire:cname-target-matched-without-value-asks-upstream" + strings.TrimPrefix(kind, "upstream(canonical)+cname")
	}
	c.Violation(key,
		fmt.Sprintf("table %s, query %s %s, upstream answers %s: client sees %s\n  not acceptable as %s",
			tableStr(table), q.Host, qtName(q.QT), mode, cs.Got, strings.Join(whys, "\n  nor as ")), cs)
}

// wireTable runs every query and upstream mode against one table, in its
// given and in the reversed order (the wire level adds nothing order-specific
// beyond part 1).
func (e *env) wireTable(base []entry) {
	c := e.c
	refs := make([]*refResult, len(e.qs))
	for i, q := range e.qs {
		refs[i] = resolve(base, q.Host, q.QT)
	}
	orders := [][]entry{append([]entry{}, base...)}
	if len(base) > 1 && base[0] != base[len(base)-1] {
		rev := make([]entry, len(base))
		for i, x := range base {
			rev[len(base)-1-i] = x
		}
		orders = append(orders, rev)
	}
	// A third server reaches the table through the API: it starts with a
	// placeholder instead of the last entry, which PUT /control/rewrite/update
	// then replaces (for one-entry tables the entry is added by the API).
	viaAPI := len(orders)
	orders = append(orders, orders[0])
	for oi, table := range orders {
		cs := caseT{Part: "wire", Table: table}
		if oi == viaAPI {
			cs.Part = "wire-via-api"
		}
		e.g.cur.Store(&cs)
		var w *wire
		var err error
		if oi == viaAPI {
			w, err = newWireViaAPI(c.TmpDir, table)
		} else {
			w, err = newWire(c.TmpDir, table)
		}
		e.g.beat.Add(1)
		if err != nil {
			c.Violation("wire:server-build-fails", fmt.Sprintf("table %s: %v", tableStr(table), err), cs)
			continue
		}
		c.Count("wire_servers", 1)
		for qi, q := range e.qs {
			for _, mode := range modes {
				e.checkWire(table, q, mode, refs[qi], w)
			}
		}
	}
}

func runWire(e *env, idx *int) {
	c := e.c
	for _, p := range wirePlans(c.Tier) {
		complete := true
		enumerate(p.alpha, p.n, func(base []entry) bool {
			*idx++
			if !c.Mine(*idx) {
				return true
			}
			if c.Expired() {
				complete = false
				return false
			}
			e.wireTable(base)
			return true
		})
		if !complete {
			c.Note("wire_bound", fmt.Sprintf("time budget ended inside wire tables of size %d over %d entries", p.n, len(p.alpha)))
			return
		}
	}
}
