// C06 — custom DNS rewrites follow the documented precedence and always
// terminate.  Stateless bounded-exhaustive enumeration (DESIGN.md §4 C06):
//
//	part 1 ("host"): every ordered rewrite table up to a size over a small
//	  colliding alphabet, through the real filtering.DNSFilter (filtering.New +
//	  CheckHost), against the reference resolver of ref.go; all permutations of
//	  a table must agree; every call runs under a watchdog.
//	part 2 ("wire"): small tables through a real dnsforward.Server with a
//	  recording mock upstream (records / NODATA / NXDOMAIN).
package main

import (
	"encoding/json"
	"fmt"
	"io"
	"net/netip"
	"os"
	"sort"
	"strings"
	"sync/atomic"
	"time"

	"github.com/AdguardTeam/AdGuardHome/internal/filtering"
	"github.com/AdguardTeam/AdGuardHome/internal/schedule"
	"github.com/AdguardTeam/AdGuardHome/internal/verifx/lib"
	"github.com/AdguardTeam/golibs/log"
)

// caseT is one replayable case.
type caseT struct {
	Part   string   `json:"part"` // host | wire
	Table  []entry  `json:"table"`
	Host   string   `json:"host"`
	QType  uint16   `json:"qtype"`
	Mode   string   `json:"upstream_mode,omitempty"`
	Got    string   `json:"got,omitempty"`
	Accept []string `json:"acceptable,omitempty"`
	Other  []entry  `json:"other_order,omitempty"`
	Got2   string   `json:"got_other_order,omitempty"`
}

func jsonStr(v any) string { b, _ := json.Marshal(v); return string(b) }

func tableStr(t []entry) string {
	var sb strings.Builder
	for i, e := range t {
		if i > 0 {
			sb.WriteString("; ")
		}
		sb.WriteString(e.Domain + " -> " + e.Answer)
	}
	return "[" + sb.String() + "]"
}

func qtName(qt uint16) string {
	switch qt {
	case qA:
		return "A"
	case qAAAA:
		return "AAAA"
	case qTXT:
		return "TXT"
	}
	return fmt.Sprint(qt)
}

// Alphabet ------------------------------------------------------------------

var patterns = []string{"a.test", "b.test", "x.a.test", "*.test", "*.a.test", "*.b.test", "*.x.a.test"}

var answers = []string{"1.1.1.1", "2.2.2.2", "::1", "A", "AAAA", "a.test", "b.test", "x.a.test", "x.b.test", "y.a.test", "c.other"}

// alphabet is patterns x answers plus "wildcard pattern onto itself".
func alphabet() (out []entry) {
	for _, p := range patterns {
		for _, a := range answers {
			out = append(out, entry{p, a})
		}
		if p[0] == '*' {
			out = append(out, entry{p, p})
		}
	}
	return out
}

// smallAlphabet is the sub-alphabet used one table size deeper: it keeps every
// kind of value and every pattern level but fewer concrete names.
func smallAlphabet() (out []entry) {
	pats := []string{"a.test", "x.a.test", "*.test", "*.a.test", "*.b.test"}
	ans := []string{"1.1.1.1", "::1", "A", "a.test", "x.a.test", "x.b.test", "y.a.test"}
	for _, p := range pats {
		for _, a := range ans {
			out = append(out, entry{p, a})
		}
	}
	return out
}

// tinyAlphabet is used for the deepest tables of the thorough tier (CNAME
// chains and cycles of length 4 and 5 through exact and wildcard entries).
func tinyAlphabet() (out []entry) {
	pats := []string{"a.test", "x.a.test", "*.test", "*.a.test", "*.b.test"}
	ans := []string{"1.1.1.1", "a.test", "x.a.test", "x.b.test", "y.a.test"}
	for _, p := range pats {
		for _, a := range ans {
			out = append(out, entry{p, a})
		}
	}
	return out
}

// mappedAlphabet: an IPv4-mapped IPv6 literal is an IPv6 value (an AAAA entry),
// next to the plain IPv4 and IPv6 literals it could be confused with.
func mappedAlphabet() (out []entry) {
	pats := []string{"a.test", "x.a.test", "*.test", "*.a.test"}
	ans := []string{"::ffff:1.1.1.1", "1.1.1.1", "::1", "AAAA", "a.test", "y.a.test"}
	for _, p := range pats {
		for _, a := range ans {
			out = append(out, entry{p, a})
		}
	}
	return out
}

// caseAlphabet: entries whose domain is written with capital letters (the table
// is case-insensitive on the domain side whatever the kind of value, including
// the "A" / "AAAA" exceptions), next to lower-case entries they interact with.
func caseAlphabet() (out []entry) {
	pats := []string{"A.Test", "X.a.TEST", "*.Test", "*.A.test", "a.test", "*.test"}
	ans := []string{"1.1.1.1", "::1", "A", "AAAA", "a.test", "y.a.test"}
	for _, p := range pats {
		for _, a := range ans {
			out = append(out, entry{p, a})
		}
	}
	return out
}

// curated holds the examples of AGHTechDoc (in the names of the alphabet) and
// the hard cases named in the design.
func curated() [][]entry {
	return [][]entry{
		{{"a.test", "1.1.1.1"}},
		{{"a.test", "::1"}},
		{{"x.a.test", "a.test"}},
		{{"x.a.test", "a.test"}, {"a.test", "1.1.1.1"}},
		{{"*.test", "1.1.1.1"}, {"a.test", "a.test"}},
		{{"a.test", "1.1.1.1"}, {"a.test", "AAAA"}},
		{{"a.test", "A"}},
		{{"*.test", "1.1.1.1"}, {"*.test", "2.2.2.2"}},
		{{"*.a.test", "x.b.test"}, {"*.b.test", "y.a.test"}},
		{{"*.a.test", "b.test"}, {"x.a.test", "1.1.1.1"}},
		{{"*.test", "a.test"}, {"a.test", "b.test"}, {"b.test", "a.test"}},
		longChain(18, "1.1.1.1"), longChain(18, "AAAA"), longChain(40, "::1"),
	}
}

// longChain is an acyclic chain of n CNAME entries ("CNAME chains ... of any
// length") ending in an entry with the value last; the queried name a.test is
// its first link.
func longChain(n int, last string) (t []entry) {
	name := func(i int) string {
		if i == 0 {
			return "a.test"
		}
		return fmt.Sprintf("hop%d.test", i)
	}
	for i := 0; i < n; i++ {
		t = append(t, entry{name(i), name(i + 1)})
	}
	return append(t, entry{name(n), last})
}

type query struct {
	Host string
	QT   uint16
}

func queries() (out []query) {
	for _, h := range []string{"a.test", "b.test", "x.a.test", "y.x.a.test", "z.test", "q.a.test", "x.b.test", "A.Test", "other.example", "xa.test", "yx.a.test"} {
		for _, t := range []uint16{qA, qAAAA, qTXT} {
			out = append(out, query{h, t})
		}
	}
	return out
}

// Observation through the real filter --------------------------------------

var setts = &filtering.Settings{FilteringEnabled: true, ProtectionEnabled: true}

func newFilter(dataDir string, table []entry) (d *filtering.DNSFilter, err error) {
	rws := make([]*filtering.LegacyRewrite, len(table))
	for i, e := range table {
		rws[i] = &filtering.LegacyRewrite{Domain: e.Domain, Answer: e.Answer}
	}
	conf := &filtering.Config{DataDir: dataDir, Rewrites: rws, BlockingMode: filtering.BlockingModeDefault}
	d, err = filtering.New(conf, nil)
	if err == nil {
		// Package home hands the very same configuration object to the filter and,
		// on every save, to WriteDiskConfig: saving must not change the table.
		d.WriteDiskConfig(conf)
	}
	return d, err
}

// newServerFilter is newFilter with the additional settings a dnsforward.Server
// needs (as the package's own tests set them).
func newServerFilter(dataDir string, table []entry) (d *filtering.DNSFilter, err error) {
	rws := make([]*filtering.LegacyRewrite, len(table))
	for i, e := range table {
		rws[i] = &filtering.LegacyRewrite{Domain: e.Domain, Answer: e.Answer}
	}
	return filtering.New(&filtering.Config{
		DataDir: dataDir, Rewrites: rws, BlockingMode: filtering.BlockingModeDefault,
		ApplyClientFiltering: func(string, netip.Addr, *filtering.Settings) {},
		BlockedServices:      &filtering.BlockedServices{Schedule: schedule.EmptyWeekly()},
		ConfigModified:       func() {},
	}, nil)
}

// observe runs one CheckHost and maps the result to the observation string of
// leaf.key.  A panic is returned as "PANIC: ...".
func observe(d *filtering.DNSFilter, host string, qt uint16) (obs string) {
	defer func() {
		if r := recover(); r != nil {
			obs = fmt.Sprintf("PANIC: %v", r)
		}
	}()
	res, err := d.CheckHost(host, qt, setts)
	if err != nil {
		return "ERROR: " + err.Error()
	}
	switch res.Reason {
	case filtering.NotFilteredNotFound:
		if res.IsFiltered || len(res.IPList) > 0 || res.CanonName != "" {
			return fmt.Sprintf("pass-with-data|%s|%v", res.CanonName, res.IPList)
		}
		return "pass"
	case filtering.Rewritten:
		if res.IsFiltered {
			return "rewritten-but-filtered"
		}
		ips := make([]string, 0, len(res.IPList))
		for _, ip := range res.IPList {
			s := ip.String()
			if !contains(ips, s) {
				ips = append(ips, s)
			}
		}
		sort.Strings(ips)
		return "rw|" + res.CanonName + "|" + strings.Join(ips, ",")
	}
	return "reason=" + res.Reason.String()
}

func obsKind(obs string) string {
	switch {
	case obs == "pass":
		return "pass"
	case strings.HasPrefix(obs, "rw|"):
		f := strings.SplitN(obs, "|", 3)
		k := ""
		if f[1] != "" {
			k = "cname"
		}
		if f[2] != "" {
			if k != "" {
				k += "+"
			}
			k += "ips"
		}
		if k == "" {
			k = "empty"
		}
		return k
	case strings.HasPrefix(obs, "PANIC"):
		return "panic"
	}
	return "other"
}

func expKinds(r *refResult) string {
	m := map[string]bool{}
	for _, l := range r.Leaves {
		if l.Kind == lAny {
			m["cycle-any"] = true
		} else {
			m[obsKind(l.key())] = true
		}
	}
	ks := make([]string, 0, len(m))
	for k := range m {
		ks = append(ks, k)
	}
	sort.Strings(ks)
	return strings.Join(ks, "|")
}

// Watchdog -------------------------------------------------------------------

const callLimit = 15 * time.Second

// guard lets one worker goroutine run many calls cheaply under one watchdog:
// the worker publishes the case it is about to run and bumps a heartbeat after
// every call; the supervisor declares a call stuck when the heartbeat has not
// moved for callLimit.
type guard struct {
	beat atomic.Uint64
	cur  atomic.Pointer[caseT]
	done chan struct{}
}

// timed runs f under a private watchdog (replay and confirmation).
func timed(f func()) (returned bool) {
	ch := make(chan struct{})
	go func() { defer close(ch); f() }()
	select {
	case <-ch:
		return true
	case <-time.After(callLimit):
		return false
	}
}

// supervise waits for the worker; it returns false if a call got stuck (the
// worker goroutine is then abandoned).
func (g *guard) supervise(c *lib.Ctx) (ok bool) {
	last, lastMove := g.beat.Load(), time.Now()
	tk := time.NewTicker(250 * time.Millisecond)
	defer tk.Stop()
	for {
		select {
		case <-g.done:
			return true
		case <-tk.C:
		}
		if b := g.beat.Load(); b != last {
			last, lastMove = b, time.Now()
			continue
		}
		if time.Since(lastMove) < callLimit {
			continue
		}
		cs := g.cur.Load()
		if cs == nil {
			lastMove = time.Now()
			continue
		}
		// Confirm in a fresh goroutine before reporting.
		stuck := *cs
		confirmed := !timed(func() { rerun(c, stuck) })
		if !confirmed {
			c.EngineError(fmt.Sprintf("watchdog fired but the call returned on re-execution: %s", jsonStr(stuck)))
			return false
		}
		c.Violation("nontermination:"+stuck.Part,
			fmt.Sprintf("evaluation does not return within %s (re-executed once, same result): table %s, query %s %s%s", callLimit,
				tableStr(stuck.Table), stuck.Host, qtName(stuck.QType), modeStr(stuck.Mode)), stuck)
		c.NotExhaustive("shard stopped after a non-terminating call (stuck goroutine abandoned)")
		return false
	}
}

func modeStr(m string) string {
	if m == "" {
		return ""
	}
	return " upstream=" + m
}

// rerun executes the implementation side of one case, ignoring the result.
func rerun(c *lib.Ctx, cs caseT) {
	if cs.Part == "wire" {
		w, err := newWire(c.TmpDir, cs.Table)
		if err != nil {
			return
		}
		_ = w.exchange(cs.Host, cs.QType, cs.Mode)
		return
	}
	d, err := newFilter(c.TmpDir, cs.Table)
	if err != nil {
		return
	}
	_ = observe(d, cs.Host, cs.QType)
}

// Part 1 ---------------------------------------------------------------------

type env struct {
	c  *lib.Ctx
	g  *guard
	qs []query
}

// checkObs compares one observation with the reference.
func (e *env) checkObs(table []entry, q query, ref *refResult, obs string) {
	c := e.c
	if strings.HasPrefix(obs, "PANIC") {
		c.Violation("panic:host", fmt.Sprintf("CheckHost panics: %s; table %s, query %s %s", obs, tableStr(table), q.Host, qtName(q.QT)),
			caseT{Part: "host", Table: table, Host: q.Host, QType: q.QT, Got: obs})
		return
	}
	if ref.accepts(obs) {
		return
	}
	cs := caseT{Part: "host", Table: table, Host: q.Host, QType: q.QT, Got: obs, Accept: ref.acceptList()}
	c.Violation("mismatch:exp="+expKinds(ref)+":got="+obsKind(obs),
		fmt.Sprintf("table %s, query %s %s: CheckHost gives %q, the documented resolution gives %v (path %s)",
			tableStr(table), q.Host, qtName(q.QT), obs, cs.Accept, ref.Shape), cs)
}

// checkTable runs one multiset of entries: reference once per query, then the
// real filter for every distinct permutation.
func (e *env) checkTable(base []entry) {
	c := e.c
	n := len(base)
	refs := make([]*refResult, len(e.qs))
	for i, q := range e.qs {
		refs[i] = resolve(base, q.Host, q.QT)
		if refs[i].Matched {
			c.Distinct("nontrivial", qtName(q.QT)+":"+refs[i].Shape)
		}
	}
	first := make([]string, len(e.qs))
	var firstTable []entry
	seen := map[string]bool{}
	flagged := map[int]bool{}
	perm := make([]int, n)
	for i := range perm {
		perm[i] = i
	}
	var rec func(k int)
	rec = func(k int) {
		if k == n {
			table := make([]entry, n)
			for i, p := range perm {
				table[i] = base[p]
			}
			key := tableStr(table)
			if seen[key] {
				return
			}
			seen[key] = true
			c.Count("tables", 1)
			cur := &caseT{Part: "host", Table: table}
			e.g.cur.Store(cur)
			d, err := newFilter(c.TmpDir, table)
			if err != nil {
				c.Violation("new-fails", fmt.Sprintf("filtering.New rejects table %s: %v", tableStr(table), err), caseT{Part: "host", Table: table})
				return
			}
			for qi, q := range e.qs {
				e.g.cur.Store(&caseT{Part: "host", Table: table, Host: q.Host, QType: q.QT})
				obs := observe(d, q.Host, q.QT)
				e.g.beat.Add(1)
				c.Count("evals", 1)
				e.checkObs(table, q, refs[qi], obs)
				if firstTable == nil {
					first[qi] = obs
					continue
				}
				if obs == first[qi] || flagged[qi] {
					continue
				}
				flagged[qi] = true
				ref := refs[qi]
				if ref.CnameTie {
					c.Count("order_dependent_cname_tie_exempt", 1)
					continue
				}
				class := "other"
				if ref.WildTie {
					// Several entries for one and the same wildcard pattern: the code
					// keeps only the first one, so the result follows the entry order.
					// The statement does not promise order independence for this case
					// (the per-call oracle still accepts only values of the winning
					// pattern), so it is counted, not flagged.
					c.Count("order_dependent_same_wildcard_several_values_exempt", 1)
					continue
				} else if ref.Cycle {
					class = "cname-cycle"
				}
				c.Violation("order-dependent:"+class,
					fmt.Sprintf("the same entries in another order resolve differently: query %s %s: %s gives %q, %s gives %q (path %s)",
						q.Host, qtName(q.QT), tableStr(firstTable), first[qi], tableStr(table), obs, ref.Shape),
					caseT{Part: "host", Table: firstTable, Host: q.Host, QType: q.QT, Got: first[qi], Other: table, Got2: obs})
			}
			if firstTable == nil {
				firstTable = table
			}
			return
		}
		for i := k; i < n; i++ {
			perm[k], perm[i] = perm[i], perm[k]
			rec(k + 1)
			perm[k], perm[i] = perm[i], perm[k]
		}
	}
	if n > 6 {
		// A long table (the chains of the curated list): the given order, the
		// reverse and one rotation instead of all n! orders.
		for _, order := range []func(i int) int{func(i int) int { return i }, func(i int) int { return n - 1 - i }, func(i int) int { return (i + n/2) % n }} {
			for i := range perm {
				perm[i] = order(i)
			}
			rec(n)
		}
	} else {
		rec(0)
	}
	c.Count("multisets", 1)
}

// enumerate calls f for every multiset of size n over alpha.
func enumerate(alpha []entry, n int, f func(base []entry) bool) {
	idx := make([]int, n)
	base := make([]entry, n)
	var rec func(k, from int) bool
	rec = func(k, from int) bool {
		if k == n {
			for i, x := range idx {
				base[i] = alpha[x]
			}
			return f(base)
		}
		for i := from; i < len(alpha); i++ {
			idx[k] = i
			if !rec(k+1, i) {
				return false
			}
		}
		return true
	}
	rec(0, 0)
}

type plan struct {
	alpha []entry
	n     int
}

func hostPlans(tier string) []plan {
	full, small := alphabet(), smallAlphabet()
	if tier == "thorough" {
		return []plan{{full, 1}, {caseAlphabet(), 1}, {caseAlphabet(), 2}, {mappedAlphabet(), 1}, {mappedAlphabet(), 2}, {mappedAlphabet(), 3}, {full, 2}, {full, 3}, {full, 4}, {tinyAlphabet(), 5}}
	}
	return []plan{{full, 1}, {caseAlphabet(), 1}, {caseAlphabet(), 2}, {mappedAlphabet(), 1}, {mappedAlphabet(), 2}, {mappedAlphabet(), 3}, {full, 2}, {full, 3}, {small, 4}}
}

func wirePlans(tier string) []plan {
	full, small := alphabet(), smallAlphabet()
	if tier == "thorough" {
		return []plan{{full, 1}, {caseAlphabet(), 1}, {caseAlphabet(), 2}, {mappedAlphabet(), 1}, {mappedAlphabet(), 2}, {full, 2}, {full, 3}}
	}
	return []plan{{full, 1}, {caseAlphabet(), 1}, {caseAlphabet(), 2}, {mappedAlphabet(), 1}, {mappedAlphabet(), 2}, {full, 2}, {small, 3}}
}

func silence() {
	log.SetLevel(log.ERROR)
	log.SetOutput(io.Discard)
}

func run(c *lib.Ctx) {
	silence()
	g := &guard{done: make(chan struct{})}
	e := &env{c: c, g: g, qs: queries()}
	go func() {
		defer close(g.done)
		defer func() {
			if r := recover(); r != nil {
				c.EngineError(fmt.Sprintf("harness panic: %v", r))
			}
		}()
		idx, mine := 0, 0
		if c.ShardI == 0 {
			// The documented examples and the named hard cases first, so that a
			// violation of a class is reported on a readable table.
			for _, t := range curated() {
				e.checkTable(t)
				e.wireTable(t)
			}
		}
		for _, p := range hostPlans(c.Tier) {
			if os.Getenv("C06_PART") == "wire" { // development switch
				break
			}
			complete := true
			enumerate(p.alpha, p.n, func(base []entry) bool {
				idx++
				if !c.Mine(idx) {
					return true
				}
				mine++
				if mine%64 == 0 && c.Expired() {
					complete = false
					return false
				}
				e.checkTable(base)
				if mine%1501 == 0 {
					c.Sample(map[string]any{"part": "host", "table": tableStr(base)})
				}
				return true
			})
			if !complete {
				c.Note("host_bound", fmt.Sprintf("time budget ended inside tables of size %d over %d entries", p.n, len(p.alpha)))
				return
			}
		}
		runWire(e, &idx)
	}()
	g.supervise(c)
}

func replay(c *lib.Ctx, raw json.RawMessage) string {
	silence()
	var cs caseT
	if err := json.Unmarshal(raw, &cs); err != nil {
		return err.Error()
	}
	e := &env{c: c, g: &guard{done: make(chan struct{})}, qs: queries()}
	q := query{cs.Host, cs.QType}
	ok := timed(func() {
		if cs.Part == "wire" {
			e.checkWire(cs.Table, q, cs.Mode, resolve(cs.Table, cs.Host, cs.QType), nil)
			return
		}
		if cs.Host == "" {
			_, _ = newFilter(c.TmpDir, cs.Table)
			return
		}
		ref := resolve(cs.Table, cs.Host, cs.QType)
		d, err := newFilter(c.TmpDir, cs.Table)
		if err != nil {
			c.Violation("new-fails", err.Error(), cs)
			return
		}
		obs := observe(d, cs.Host, cs.QType)
		e.checkObs(cs.Table, q, ref, obs)
		if len(cs.Other) > 0 {
			d2, err2 := newFilter(c.TmpDir, cs.Other)
			if err2 != nil {
				c.Violation("new-fails", err2.Error(), cs)
				return
			}
			if obs2 := observe(d2, cs.Host, cs.QType); obs2 != obs {
				c.Violation("order-dependent", fmt.Sprintf("%s gives %q, %s gives %q", tableStr(cs.Table), obs, tableStr(cs.Other), obs2), cs)
			}
		}
	})
	if !ok {
		return fmt.Sprintf("the call does not return within %s: %s", callLimit, jsonStr(cs))
	}
	if c.NumViolationKeys() > 0 {
		return "violation reproduced: " + jsonStr(cs)
	}
	return ""
}

func main() {
	lib.Main(&lib.Harness{
		Prop: "C06", Level: "exploration",
		Shards: func(string) int { return 16 },
		Budget: func(tier string) time.Duration {
			if tier == "thorough" {
				return 17 * time.Minute
			}
			return 4 * time.Minute
		},
		Run: run, Replay: replay,
		Evidence: func(m *lib.Merged) map[string]any {
			return map[string]any{
				"evaluations":                      m.Counters["evals"] + m.Counters["wire_requests"],
				"host_evaluations":                 m.Counters["evals"],
				"ordered_tables":                   m.Counters["tables"],
				"multisets":                        m.Counters["multisets"],
				"wire_requests":                    m.Counters["wire_requests"],
				"wire_servers":                     m.Counters["wire_servers"],
				"distinct_nontrivial":              m.Distinct["nontrivial"],
				"distinct_wire_outcomes":           m.Distinct["wire"],
				"order_dependent_cname_tie_exempt": m.Counters["order_dependent_cname_tie_exempt"],
				"order_dependent_same_wildcard_several_values_exempt": m.Counters["order_dependent_same_wildcard_several_values_exempt"],
				"rule":                             "part 1: every ordered table of <=3 entries over 7 patterns (a.test b.test x.a.test *.test *.a.test *.b.test *.x.a.test) x 11 answers (1.1.1.1 2.2.2.2 ::1 A AAAA a.test b.test x.a.test x.b.test y.a.test c.other) + wildcard-onto-itself = 81 entries, plus size <=3 over a 24-entry sub-alphabet with an IPv4-mapped IPv6 value (::ffff:1.1.1.1, an AAAA value) and size 4 over a 35-entry sub-alphabet (thorough: <=4 over the 81 entries plus size 5 over a 25-entry sub-alphabet); 11 names (incl. xa.test and yx.a.test, which end like a wildcard's base without the label boundary) x A/AAAA/TXT; every permutation is a fresh filtering.New and must agree with the others. part 2: tables of <=2 entries over the 81 entries and of 3 over the 35-entry sub-alphabet (thorough: <=3 over the 81), each in 2 orders, x the same queries, through dnsforward with a mock upstream in 3 modes. non-trivial = distinct resolution path shapes (kind/exactness/shadowing/tie per step and final outcome, per query type) of queries matched by the table",
			}
		},
		Assumptions: []string{
			"exact-over-wildcard shadowing among address entries is accepted both per kind (an exact A entry hides a wildcard AAAA entry) and per requested family (it does not); the statement allows both readings",
			"a pass-through exception ('name to itself', 'A', 'AAAA') met behind a CNAME may pass the whole request or only the canonical name to the upstream",
			"several CNAME entries with different targets for one pattern: either may win, also depending on the order (a CNAME is single-valued, the documents define no winner)",
			"on a CNAME cycle only termination, no addresses and a canonical name from the chain other than the queried name (or pass-through) are demanded",
			"a call that does not return within 15 s is non-terminating (normal cost is microseconds)",
		},
	})
}
