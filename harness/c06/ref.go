package main

// The reference resolver for custom DNS rewrites.  It is written from
// AGHTechDoc.md "## Rewrites" and the statement of property C06 only; it does
// not use any helper of package filtering.
//
// Where the documents leave a choice open the reference is nondeterministic: it
// returns every acceptable outcome ("leaves").  The open choices are listed in
// the harness assumptions (main.go).

import (
	"net/netip"
	"sort"
	"strings"
)

// entry is one line of the rewrite table, "key -> value".
type entry struct {
	Domain string `json:"domain"`
	Answer string `json:"answer"`
}

const (
	qA    = 1
	qAAAA = 28
	qTXT  = 16
)

// Value kinds of an entry.
const (
	vIP4 = iota
	vIP6
	vExcA
	vExcAAAA
	vCNAME
)

func valueKind(ans string) int {
	switch ans {
	case "A":
		return vExcA
	case "AAAA":
		return vExcAAAA
	}
	ip, err := netip.ParseAddr(ans)
	if err != nil {
		return vCNAME
	}
	if ip.Is4() {
		return vIP4
	}
	return vIP6
}

// specificity of pattern pat for name: 0 = no match, 1<<20 = exact, otherwise
// the number of labels of the wildcard's suffix (more labels = more specific).
func specificity(pat, name string) int {
	if pat == name {
		return 1 << 20
	}
	if len(pat) > 2 && pat[0] == '*' && pat[1] == '.' {
		suffix := pat[1:] // ".a.test"
		if len(name) > len(suffix) && strings.HasSuffix(name, suffix) {
			return strings.Count(suffix, ".")
		}
	}
	return 0
}

// Leaf kinds.
const (
	lPass  = iota // not rewritten: the original question goes upstream
	lIPs          // answered from the table (optional CNAME + addresses), no upstream
	lUp           // CNAME to a name the table does not resolve: upstream is asked for Canon
	lEmpty        // matched, no value for the type: empty NOERROR, no upstream
	lAny          // CNAME cycle: only termination and the generic invariants are demanded
)

type leaf struct {
	Kind  int
	Canon string
	IPs   []string
}

// key is the CheckHost-level observation of a leaf.  lUp and lEmpty with a
// canonical name collapse at that level (both are "rewritten, CNAME, no
// addresses"); the wire level (wire.go) tells them apart.
func (l leaf) key() string {
	switch l.Kind {
	case lPass:
		return "pass"
	case lIPs:
		return "rw|" + l.Canon + "|" + strings.Join(l.IPs, ",")
	case lUp, lEmpty:
		return "rw|" + l.Canon + "|"
	}
	return "any"
}

type refResult struct {
	Leaves []leaf
	// Matched reports that the queried name is matched by some entry.
	Matched bool
	// CnameTie: several CNAME entries with different targets for the winning
	// pattern somewhere on the path; the documents define no winner.
	CnameTie bool
	// WildTie: a wildcard pattern with several different entries decided the
	// address step.
	WildTie bool
	// Cycle: the CNAME chain revisits a name.
	Cycle bool
	// Chain holds every name the chain may visit (for lAny).
	Chain map[string]bool
	// Shape is the structural class of the resolution (for coverage counting).
	Shape string
}

func (r *refResult) accepts(obs string) bool {
	for _, l := range r.Leaves {
		if l.Kind == lAny {
			if obs == "pass" {
				return true
			}
			// rewritten, no addresses, canonical name on the chain
			if strings.HasPrefix(obs, "rw|") && strings.HasSuffix(obs, "|") {
				canon := obs[3 : len(obs)-1]
				if r.Chain[canon] {
					return true
				}
			}
			continue
		}
		if l.key() == obs {
			return true
		}
	}
	return false
}

func (r *refResult) acceptList() []string {
	m := map[string]bool{}
	for _, l := range r.Leaves {
		if l.Kind == lAny {
			m["any(pass | rewritten without addresses, CNAME to another name on the cycle path)"] = true
			continue
		}
		m[l.key()] = true
	}
	out := make([]string, 0, len(m))
	for k := range m {
		out = append(out, k)
	}
	sort.Strings(out)
	return out
}

type refRun struct {
	table  []entry
	q      string
	qt     uint16
	res    *refResult
	shapes []string
}

// resolve is the reference.
func resolve(table []entry, name string, qt uint16) *refResult {
	r := &refRun{table: table, q: strings.ToLower(name), qt: qt, res: &refResult{Chain: map[string]bool{}}}
	r.walk(r.q, "", 0, []string{r.q}, "")
	sort.Strings(r.shapes)
	r.res.Shape = strings.Join(dedup(r.shapes), " / ")
	return r.res
}

func dedup(s []string) []string {
	out := s[:0:0]
	for i, x := range s {
		if i == 0 || x != s[i-1] {
			out = append(out, x)
		}
	}
	return out
}

func (r *refRun) add(l leaf, shape string) {
	r.res.Leaves = append(r.res.Leaves, l)
	r.shapes = append(r.shapes, shape)
}

// exception adds the leaves of a pass-through exception met at depth.
func (r *refRun) exception(cur string, depth int, shape string) {
	r.add(leaf{Kind: lPass}, shape)
	if depth > 0 {
		// Exception met behind a CNAME: the documents do not say whether the
		// whole request or only the canonical name is passed to the upstream.
		r.add(leaf{Kind: lUp, Canon: cur}, shape)
	}
}

func contains(l []string, s string) bool {
	for _, x := range l {
		if x == s {
			return true
		}
	}
	return false
}

func (r *refRun) walk(cur, canon string, depth int, visited []string, shape string) {
	type m struct {
		e    entry
		spec int
		kind int
	}
	var matching []m
	for _, e := range r.table {
		pat := strings.ToLower(e.Domain)
		if sp := specificity(pat, cur); sp > 0 {
			matching = append(matching, m{entry{pat, e.Answer}, sp, valueKind(e.Answer)})
		}
	}
	if depth == 0 {
		r.res.Matched = len(matching) > 0
	}
	if len(matching) == 0 {
		if depth == 0 {
			r.add(leaf{Kind: lPass}, "nomatch")
		} else {
			r.add(leaf{Kind: lUp, Canon: cur}, shape+"up")
		}
		return
	}

	// CNAME entries take precedence over address entries.
	best, others := 0, false
	for _, x := range matching {
		if x.kind == vCNAME {
			if x.spec > best {
				best = x.spec
			}
		} else {
			others = true
		}
	}
	if best > 0 {
		pat := ""
		var answers []string
		shadowed := false
		for _, x := range matching {
			if x.kind != vCNAME {
				continue
			}
			if x.spec == best {
				pat = x.e.Domain
				if !contains(answers, x.e.Answer) {
					answers = append(answers, x.e.Answer)
				}
			} else {
				shadowed = true
			}
		}
		st := "C"
		if best == 1<<20 {
			st += "x"
		} else {
			st += "w"
		}
		if shadowed {
			st += "s"
		}
		if others {
			st += "a"
		}
		if len(answers) > 1 {
			r.res.CnameTie = true
			st += "t"
		}
		st += ">"
		for _, ans := range answers {
			switch {
			case ans == pat || ans == cur:
				// "key -> key": CNAME exception.
				r.exception(cur, depth, shape+st+"exc-self")
			case contains(visited, ans):
				r.res.Cycle = true
				for _, v := range visited[1:] {
					r.res.Chain[v] = true
				}
				if ans != r.q {
					// A reply "q CNAME q" is never acceptable.
					r.res.Chain[ans] = true
				}
				r.add(leaf{Kind: lAny}, shape+st+"cycle")
			default:
				nv := append(append([]string{}, visited...), ans)
				r.walk(ans, ans, depth+1, nv, shape+st)
			}
		}
		return
	}

	// Only address entries (incl. "A"/"AAAA" exceptions) match cur.
	if r.qt != qA && r.qt != qAAAA {
		r.add(leaf{Kind: lEmpty, Canon: canon}, shape+"other-type-empty")
		return
	}
	fam, exc := vIP4, vExcA
	if r.qt == qAAAA {
		fam, exc = vIP6, vExcAAAA
	}
	// Variant K: the most specific pattern among all address entries wins, then
	// its values for the family are used.  Variant F: the most specific pattern
	// among the entries that speak about the requested family wins.
	bestK, bestF := 0, 0
	for _, x := range matching {
		if x.spec > bestK {
			bestK = x.spec
		}
		if (x.kind == fam || x.kind == exc) && x.spec > bestF {
			bestF = x.spec
		}
	}
	variants := []int{bestK}
	if bestF != bestK {
		variants = append(variants, bestF)
	}
	for vi, b := range variants {
		vs := "K"
		if len(variants) > 1 {
			vs = []string{"K", "F"}[vi]
		}
		if b == 0 {
			// Variant F with no entry for the family at all.
			r.add(leaf{Kind: lEmpty, Canon: canon}, shape+vs+"-nofamily-empty")
			continue
		}
		var all []m
		for _, x := range matching {
			if x.spec == b {
				all = append(all, x)
			}
		}
		hasExc := false
		var ips []string
		var distinct []string
		for _, x := range all {
			if !contains(distinct, x.e.Answer) {
				distinct = append(distinct, x.e.Answer)
			}
			if x.kind == exc {
				hasExc = true
			}
			if x.kind == fam && !contains(ips, canonIP(x.e.Answer)) {
				ips = append(ips, canonIP(x.e.Answer))
			}
		}
		sort.Strings(ips)
		st := vs + "-A"
		if b == 1<<20 {
			st += "x"
		} else {
			st += "w"
		}
		if len(matching) > len(all) {
			st += "s"
		}
		switch {
		case hasExc:
			r.exception(cur, depth, shape+st+"-exc")
		case len(ips) == 0:
			r.add(leaf{Kind: lEmpty, Canon: canon}, shape+st+"-novalue-empty")
		default:
			r.add(leaf{Kind: lIPs, Canon: canon, IPs: ips}, shape+st+"-ips"+string(rune('0'+len(ips))))
		}
		if b != 1<<20 && len(distinct) > 1 {
			// Several different entries under the winning wildcard pattern:
			// "the most specific wins" can be read as a single entry winning.
			// Each single entry's outcome is accepted per call; the order
			// check decides whether the choice depends on the table order.
			r.res.WildTie = true
			for _, x := range all {
				switch {
				case x.kind == exc:
					r.exception(cur, depth, shape+st+"-tie-exc")
				case x.kind == fam:
					r.add(leaf{Kind: lIPs, Canon: canon, IPs: []string{canonIP(x.e.Answer)}}, shape+st+"-tie-ip")
				default:
					r.add(leaf{Kind: lEmpty, Canon: canon}, shape+st+"-tie-empty")
				}
			}
		}
	}
}

func canonIP(s string) string {
	ip, err := netip.ParseAddr(s)
	if err != nil {
		return s
	}
	return ip.String()
}
