// C02 — upstream answers revealing a blocked CNAME target or address are not
// delivered.  Stateless bounded-exhaustive enumeration of answer sections x
// rule sets x configurations on the real request pipeline (DESIGN.md §4 C02).
package main

import (
	"encoding/json"
	"fmt"
	"net"
	"net/netip"
	"strings"
	"time"

	"github.com/AdguardTeam/AdGuardHome/internal/dnsforward"
	"github.com/AdguardTeam/AdGuardHome/internal/filtering"
	"github.com/AdguardTeam/AdGuardHome/internal/verifx/lib"
	"github.com/AdguardTeam/AdGuardHome/internal/verifx/srv"
	vtime "github.com/AdguardTeam/AdGuardHome/verifx/vtime"
	"github.com/AdguardTeam/dnsproxy/proxy"
	"github.com/miekg/dns"
)

var now = time.Date(2024, 6, 5, 12, 0, 0, 0, time.UTC)

const (
	qName   = "q.test"
	badV4   = "6.6.6.6"
	badV6   = "2001:db8::bad"
	safeV4  = "9.9.9.9"
	safeV6  = "2001:db8::5afe"
	cliAddr = "10.0.0.1"
)

// ---- answer-record alphabet -----------------------------------------------------

type rrKind struct {
	Name string
	// hosts are the (host, rrtype) pairs the record exposes to response filtering, in order.
	mk func(owner string) dns.RR
}

func hdr(owner string, t uint16) dns.RR_Header {
	return dns.RR_Header{Name: dns.Fqdn(owner), Rrtype: t, Class: dns.ClassINET, Ttl: 300}
}

func ips(ss ...string) (out []net.IP) {
	for _, s := range ss {
		out = append(out, net.ParseIP(s))
	}
	return out
}

func https(owner string, vals ...dns.SVCBKeyValue) dns.RR {
	return &dns.HTTPS{SVCB: dns.SVCB{Hdr: hdr(owner, dns.TypeHTTPS), Priority: 1, Target: ".", Value: vals}}
}

var kinds = []rrKind{
	{"cname-safe", func(o string) dns.RR { return &dns.CNAME{Hdr: hdr(o, dns.TypeCNAME), Target: "safe.test."} }},
	{"cname-bad", func(o string) dns.RR { return &dns.CNAME{Hdr: hdr(o, dns.TypeCNAME), Target: "bad.test."} }},
	{"cname-BAD-case", func(o string) dns.RR { return &dns.CNAME{Hdr: hdr(o, dns.TypeCNAME), Target: "Sub.BAD.test."} }},
	{"cname-excepted", func(o string) dns.RR { return &dns.CNAME{Hdr: hdr(o, dns.TypeCNAME), Target: "excepted.test."} }},
	{"a-safe", func(o string) dns.RR { return &dns.A{Hdr: hdr(o, dns.TypeA), A: net.ParseIP(safeV4).To4()} }},
	{"a-bad", func(o string) dns.RR { return &dns.A{Hdr: hdr(o, dns.TypeA), A: net.ParseIP(badV4).To4()} }},
	{"aaaa-safe", func(o string) dns.RR { return &dns.AAAA{Hdr: hdr(o, dns.TypeAAAA), AAAA: net.ParseIP(safeV6)} }},
	{"aaaa-bad", func(o string) dns.RR { return &dns.AAAA{Hdr: hdr(o, dns.TypeAAAA), AAAA: net.ParseIP(badV6)} }},
	// The blocked IPv4 address in its IPv4-mapped IPv6 form.
	{"aaaa-mapped-bad-v4", func(o string) dns.RR {
		return &dns.AAAA{Hdr: hdr(o, dns.TypeAAAA), AAAA: net.ParseIP("::ffff:" + badV4)}
	}},
	{"https-nohint", func(o string) dns.RR { return https(o, &dns.SVCBAlpn{Alpn: []string{"h2"}}) }},
	{"https-v4bad", func(o string) dns.RR { return https(o, &dns.SVCBIPv4Hint{Hint: ips(badV4)}) }},
	{"https-v6bad", func(o string) dns.RR { return https(o, &dns.SVCBIPv6Hint{Hint: ips(badV6)}) }},
	{"https-v4safe-v6bad", func(o string) dns.RR {
		return https(o, &dns.SVCBAlpn{Alpn: []string{"h3"}}, &dns.SVCBIPv4Hint{Hint: ips(safeV4)}, &dns.SVCBIPv6Hint{Hint: ips(badV6)})
	}},
	{"https-v4list-lastbad", func(o string) dns.RR { return https(o, &dns.SVCBIPv4Hint{Hint: ips(safeV4, badV4)}) }},
	{"txt", func(o string) dns.RR { return &dns.TXT{Hdr: hdr(o, dns.TypeTXT), Txt: []string{"v=spf1 -all"}} }},
	{"mx", func(o string) dns.RR { return &dns.MX{Hdr: hdr(o, dns.TypeMX), Preference: 10, Mx: "mail.safe.test."} }},
}

// exposed lists, for one record, the hosts response filtering must look at.
type exposure struct {
	host   string
	rrtype uint16
	v6hint bool
}

func exposed(rr dns.RR) (out []exposure) {
	switch a := rr.(type) {
	case *dns.CNAME:
		out = append(out, exposure{strings.TrimSuffix(a.Target, "."), dns.TypeCNAME, false})
	case *dns.A:
		out = append(out, exposure{a.A.String(), dns.TypeA, false})
	case *dns.AAAA:
		out = append(out, exposure{a.AAAA.String(), dns.TypeAAAA, false})
	case *dns.HTTPS:
		for _, kv := range a.Value {
			switch h := kv.(type) {
			case *dns.SVCBIPv4Hint:
				for _, ip := range h.Hint {
					out = append(out, exposure{ip.String(), dns.TypeHTTPS, false})
				}
			case *dns.SVCBIPv6Hint:
				for _, ip := range h.Hint {
					out = append(out, exposure{ip.String(), dns.TypeHTTPS, true})
				}
			}
		}
	}
	return out
}

// ---- configurations ---------------------------------------------------------------

type ruleSet struct {
	Name   string   `json:"name"`
	Block  []string `json:"block"`
	Custom []string `json:"custom"`
	Allow  []string `json:"allow"`
}

func ruleSets() []ruleSet {
	bad := []string{"||bad.test^", "||" + badV4 + "^", "||" + badV6 + "^", "||excepted.test^"}
	return []ruleSet{
		{Name: "none"},
		{Name: "block-bad", Block: bad, Custom: []string{"@@||excepted.test^"}},
		{Name: "block-bad-custom", Custom: append([]string{"@@||excepted.test^"}, bad...)},
		{Name: "exceptions-for-addresses", Block: bad, Custom: []string{"@@||excepted.test^", "@@||" + badV4 + "^", "@@||" + badV6 + "^"}},
		{Name: "important-over-exception", Block: []string{"||bad.test^$important", "||" + badV4 + "^$important"}, Custom: []string{"@@||bad.test^", "@@||" + badV4 + "^", "@@||excepted.test^", "||excepted.test^"}},
		{Name: "queried-name-allow-listed", Block: bad, Allow: []string{"||q.test^"}},
		{Name: "queried-name-excepted", Block: bad, Custom: []string{"@@||q.test^"}},
		{Name: "bad-allow-listed", Block: bad, Allow: []string{"||bad.test^", "||" + badV4 + "^"}},
		{Name: "hosts-style", Block: []string{"0.0.0.0 bad.test", "1.2.3.4 sub.bad.test"}},
		{Name: "dnstype-A-only", Block: []string{"||bad.test^$dnstype=A", "||" + badV4 + "^$dnstype=A"}},
	}
}

type config struct {
	Rules    ruleSet `json:"rules"`
	Mode     string  `json:"mode"`
	AAAAOff  bool    `json:"aaaa_disabled"`
	Prot     bool    `json:"protection"`
	Filter   bool    `json:"global_filtering"`
	ClientOK string  `json:"client"` // none, own-off
	// Cache: the proxy's answer cache is on and every question is asked twice;
	// the judged response is the second one, served from the cache.
	Cache bool `json:"answer_cache,omitempty"`
	// NX: the upstream answers NXDOMAIN and still carries the answer section
	// (a CNAME chain ending at a name that does not exist).
	NX bool `json:"upstream_nxdomain,omitempty"`
	// Order: "" = records in chain order; "reversed" = the same records in the
	// opposite order (addresses before the CNAMEs that lead to them);
	// "upper-owners" = owner names of all records but the first in upper case
	// (names are case-insensitive, the order of records is not significant).
	Order string `json:"upstream_answer_order,omitempty"`
}

type caseC struct {
	Conf   config   `json:"config"`
	Qtype  string   `json:"qtype"`
	Answer []string `json:"upstream_answer_kinds"`
	Got    string   `json:"got,omitempty"`
	Want   string   `json:"want,omitempty"`
}

type env struct{ c *lib.Ctx }

func jsonStr(v any) string { b, _ := json.Marshal(v); return string(b) }

func kindByName(n string) *rrKind {
	for i := range kinds {
		if kinds[i].Name == n {
			return &kinds[i]
		}
	}
	return nil
}

// mkAnswer builds the answer section: CNAME records chain owners.
func mkAnswer(seq []string, order string) []dns.RR {
	owner := qName
	var out []dns.RR
	for i, k := range seq {
		o := owner
		if order == "upper-owners" && i > 0 {
			o = strings.ToUpper(owner)
		}
		rr := kindByName(k).mk(o)
		out = append(out, rr)
		if c, ok := rr.(*dns.CNAME); ok {
			owner = strings.TrimSuffix(c.Target, ".")
		}
	}
	if order == "reversed" {
		for i, j := 0, len(out)-1; i < j; i, j = i+1, j-1 {
			out[i], out[j] = out[j], out[i]
		}
	}
	return out
}

func stripV6(rr dns.RR) dns.RR {
	h, ok := rr.(*dns.HTTPS)
	if !ok {
		return rr
	}
	cp := *h
	cp.Value = nil
	for _, kv := range h.Value {
		if _, is6 := kv.(*dns.SVCBIPv6Hint); !is6 {
			cp.Value = append(cp.Value, kv)
		}
	}
	return &cp
}

func (e *env) runConfig(cf *config, qtypes []uint16, seqs [][]string) {
	c := e.c
	vtime.SetVirtual(now)
	sp := &srv.Spec{
		BlockRules: cf.Rules.Block, CustomRules: cf.Rules.Custom, AllowRules: cf.Rules.Allow,
		Mode: filtering.BlockingMode(cf.Mode), BlockedTTL: 10, ProtectionEnabled: cf.Prot, FilteringEnabled: cf.Filter,
		BlockingIPv4: srv.CustomV4, BlockingIPv6: srv.CustomV6,
		Conf: func(sc *dnsforward.ServerConfig) {
			sc.AAAADisabled = cf.AAAAOff
			if cf.Cache {
				sc.CacheSize = 1 << 20
			}
		},
	}
	ql := &srv.RecLog{}
	sp.QueryLog = ql
	if cf.ClientOK == "own-off" {
		sp.Clients = []srv.ClientSpec{{Name: "kid", IDs: []string{cliAddr}, UseOwnSettings: true, FilteringEnabled: false}}
	}
	a, err := srv.Build(sp)
	if err != nil {
		c.Violation("build-failed", err.Error(), caseC{Conf: *cf})
		return
	}
	defer a.Close()
	allow := srv.ParseRules(cf.Rules.Allow, 100)
	block := srv.ParseRules(append(append([]string{}, cf.Rules.Custom...), cf.Rules.Block...), 200)
	filteringOn := cf.Filter && cf.ClientOK != "own-off"
	c.Count("configs", 1)
	for _, qt := range qtypes {
		// Is the queried name itself allow-listed / excepted / blocked?
		qv, _, _ := srv.RuleVerdict(allow, block, qName, qt, cliAddr, "")
		for _, seq := range seqs {
			c.Count("evals", 1)
			cs := caseC{Conf: *cf, Qtype: dns.TypeToString[qt], Answer: seq}
			ans := mkAnswer(seq, cf.Order)
			a.Upstream.Answer = func(req *dns.Msg) *dns.Msg {
				resp := (&dns.Msg{}).SetReply(req)
				resp.RecursionAvailable = true
				if cf.NX {
					resp.Rcode = dns.RcodeNameError
				}
				for _, rr := range mkAnswer(seq, cf.Order) {
					resp.Answer = append(resp.Answer, rr)
				}
				return resp
			}
			a.Upstream.Reset()
			ql.Reset()
			var pctx *proxy.DNSContext
			var berr, herr error
			var pan any
			wantCalls := 1
			if cf.Cache && !(cf.AAAAOff && qt == dns.TypeAAAA) && !(qv == "blocked" && cf.Prot && filteringOn) {
				// Prime the cache with this answer section; the question is then asked again.
				a.Server.VerifClearCache()
				func() {
					defer func() { pan = recover() }()
					_, berr, herr = a.Query(qName, qt, cliAddr+":999", proxy.ProtoUDP)
				}()
				if n := len(a.Upstream.Reset()); pan != nil || berr != nil || herr != nil || n != 1 {
					c.Violation("cache-priming-failed", fmt.Sprintf("first query: panic=%v before=%v err=%v upstream calls=%d\ncase: %s", pan, berr, herr, n, jsonStr(cs)), cs)
					continue
				}
				ql.Reset()
				wantCalls = 0
			}
			func() {
				defer func() { pan = recover() }()
				pctx, berr, herr = a.Query(qName, qt, cliAddr+":999", proxy.ProtoUDP)
			}()
			if pan != nil {
				c.Violation("panic", fmt.Sprintf("request handling panics: %v\ncase: %s", pan, jsonStr(cs)), cs)
				continue
			}
			asked := a.Upstream.Reset()
			entries := ql.Reset()
			if berr != nil || herr != nil || pctx.Res == nil {
				c.Violation("no-response", fmt.Sprintf("no response: before=%v err=%v\ncase: %s", berr, herr, jsonStr(cs)), cs)
				continue
			}
			m := pctx.Res
			cs.Got = srv.Describe(m)
			if cf.AAAAOff && qt == dns.TypeAAAA {
				// Answered locally before the upstream stage: out of this property's scope.
				continue
			}
			if qv == "blocked" && cf.Prot && filteringOn {
				continue // blocked before the upstream stage (C01)
			}
			if wantCalls == 0 && len(asked) == 0 {
				c.Count("answers_from_cache", 1)
			}
			// (The proxy does not cache every answer, e.g. one without a record
			// of the queried type; the second question then goes upstream again.)
			if len(asked) != wantCalls && !(wantCalls == 0 && len(asked) == 1) {
				c.Violation("upstream-calls", fmt.Sprintf("expected exactly %d upstream call(s), got %v\ncase: %s", wantCalls, asked, jsonStr(cs)), cs)
				continue
			}
			// Reference: first answer record exposing a blocked host decides.
			applicable := cf.Prot && filteringOn && qv != "allowed"
			var blockedBy *exposure
			var hostsBlock bool
			if applicable {
			scan:
				for _, rr := range ans {
					for _, ex := range exposed(rr) {
						if ex.v6hint && cf.AAAAOff {
							continue // IPv6 hints are dropped before filtering when AAAA is disabled
						}
						v, hb, _ := srv.RuleVerdict(allow, block, ex.host, ex.rrtype, cliAddr, "")
						if v == "blocked" {
							x := ex
							blockedBy, hostsBlock = &x, hb
							break scan
						}
					}
				}
			}
			if blockedBy != nil {
				cs.Want = fmt.Sprintf("blocking-mode response (answer exposes %s)", blockedBy.host)
				c.Distinct("nontrivial", jsonStr(caseC{Conf: *cf, Qtype: cs.Qtype, Answer: seq}))
				c.Distinct("cells", cf.Rules.Name+"|"+cf.Mode+"|"+cs.Qtype+"|blocked-by-"+dns.TypeToString[blockedBy.rrtype]+fmt.Sprint(blockedBy.v6hint))
				forbidden := []string{badV4, badV6, safeV4, safeV6, "bad.test", "safe.test", "spf1", "excepted.test"}
				if msg := srv.CheckBlocked(cf.Mode, 10, qName, qt, hostsBlock, nil, m, forbidden); msg != "" {
					key := "response-not-blocked:" + dns.TypeToString[blockedBy.rrtype] + ":" + cs.Qtype
					if blockedBy.v6hint {
						key += ":v6hint"
					}
					if hostsBlock {
						key += ":hosts"
					}
					c.Violation(key+":"+cf.Mode, fmt.Sprintf("upstream answer exposes blocked %s but the client does not get the %s blocking response: %s\ngot: %s\ncase: %s", blockedBy.host, cf.Mode, msg, cs.Got, jsonStr(cs)), cs)
					continue
				}
				if len(entries) == 1 && (entries[0].OrigAnswer == nil || entries[0].Result == nil || !entries[0].Result.IsFiltered) {
					c.Violation("log-entry-without-original-answer", fmt.Sprintf("blocked-by-response query is logged without original answer / filtered result\ncase: %s", jsonStr(cs)), cs)
				}
				continue
			}
			// Delivered unchanged.
			cs.Want = "upstream answer unchanged"
			if len(seq) > 0 {
				c.Distinct("cells", cf.Rules.Name+"|"+cf.Mode+"|"+cs.Qtype+"|delivered|"+fmt.Sprint(applicable))
			}
			wantRcode := dns.RcodeSuccess
			if cf.NX {
				wantRcode = dns.RcodeNameError
			}
			if m.Rcode != wantRcode || len(m.Answer) != len(ans) {
				c.Violation("answer-not-delivered:"+cf.Rules.Name, fmt.Sprintf("no answer record matches a blocking rule (or response filtering is not applicable) but the upstream answer was not delivered\ngot: %s\ncase: %s", cs.Got, jsonStr(cs)), cs)
				continue
			}
			bad := false
			for i := range ans {
				norm := func(rr dns.RR) string {
					f := strings.Fields(rr.String())
					if cf.Cache && len(f) > 1 {
						f[1] = "ttl" // a cached record's TTL counts down
					}
					return strings.Join(f, " ")
				}
				g, w1, w2 := norm(m.Answer[i]), norm(ans[i]), norm(stripV6(ans[i]))
				// With AAAA answers disabled the response-filtering stage drops the IPv6
				// hints of HTTPS records; where that stage is not applicable the
				// statement's "unchanged" is taken literally.
				if g != w1 && !(cf.AAAAOff && applicable && g == w2) {
					bad = true
				}
			}
			if bad || m.Question[0].Name != dns.Fqdn(qName) {
				c.Violation("answer-modified:"+cf.Rules.Name, fmt.Sprintf("delivered answer differs from the upstream's\ngot: %s\nwant: %v\ncase: %s", cs.Got, srv.RRStrings(ans), jsonStr(cs)), cs)
			}
		}
	}
}

func sequences(maxLen int) [][]string {
	out := [][]string{{}}
	var rec func(cur []string)
	rec = func(cur []string) {
		if len(cur) == maxLen {
			return
		}
		for _, k := range kinds {
			n := append(append([]string{}, cur...), k.Name)
			out = append(out, n)
			rec(n)
		}
	}
	rec(nil)
	return out
}

func run(c *lib.Ctx) {
	srv.Quiet()
	e := &env{c}
	maxLen := 3
	if !c.Quick() {
		maxLen = 4
	}
	seqs := sequences(maxLen)
	c.Note("sequences", fmt.Sprintf("%d answer sections of length <= %d over %d record kinds", len(seqs), maxLen, len(kinds)))
	qts := []uint16{dns.TypeA, dns.TypeAAAA, dns.TypeHTTPS, dns.TypeTXT, dns.TypeMX}
	var confs []config
	for _, rs := range ruleSets() {
		for _, mode := range []string{"default", "null_ip", "custom_ip", "nxdomain", "refused"} {
			confs = append(confs, config{Rules: rs, Mode: mode, Prot: true, Filter: true, ClientOK: "none"})
		}
		for _, f := range []config{
			{AAAAOff: true, Prot: true, Filter: true, ClientOK: "none"},
			{Prot: false, Filter: true, ClientOK: "none"},
			{Prot: true, Filter: false, ClientOK: "none"},
			{Prot: true, Filter: true, ClientOK: "own-off"},
			{AAAAOff: true, Prot: true, Filter: true, ClientOK: "own-off"},
		} {
			f.Rules, f.Mode = rs, "default"
			confs = append(confs, f)
		}
		confs = append(confs, config{Rules: rs, Mode: "default", Prot: true, Filter: true, ClientOK: "none", NX: true},
			config{Rules: rs, Mode: "default", Prot: true, Filter: true, ClientOK: "none", Cache: true},
			config{Rules: rs, Mode: "null_ip", AAAAOff: true, Prot: true, Filter: true, ClientOK: "none", Cache: true},
			config{Rules: rs, Mode: "default", Prot: true, Filter: true, ClientOK: "none", Order: "reversed"},
			config{Rules: rs, Mode: "nxdomain", Prot: true, Filter: true, ClientOK: "none", Order: "upper-owners"})
	}
	// Split the sequence list into chunks so that shards balance.
	const chunk = 400
	idx := 0
	for ci := range confs {
		for off := 0; off < len(seqs); off += chunk {
			idx++
			if !c.Mine(idx) {
				continue
			}
			if c.Expired() {
				return
			}
			end := off + chunk
			if end > len(seqs) {
				end = len(seqs)
			}
			e.runConfig(&confs[ci], qts, seqs[off:end])
			if idx%53 == 0 {
				c.Sample(map[string]any{"config": confs[ci], "answer_sections": end - off, "first": seqs[off]})
			}
		}
	}
}

func replay(c *lib.Ctx, raw json.RawMessage) string {
	srv.Quiet()
	var cs caseC
	if err := json.Unmarshal(raw, &cs); err != nil {
		return err.Error()
	}
	(&env{c}).runConfig(&cs.Conf, []uint16{dns.StringToType[cs.Qtype]}, [][]string{cs.Answer})
	if c.NumViolationKeys() > 0 {
		return "violation reproduced: " + jsonStr(cs)
	}
	return ""
}

var _ = netip.Addr{}

func main() {
	lib.Main(&lib.Harness{
		Prop: "C02", Level: "exploration",
		Budget: func(tier string) time.Duration {
			if tier == "thorough" {
				return 25 * time.Minute
			}
			return 4 * time.Minute
		},
		Run: run, Replay: replay,
		Evidence: func(m *lib.Merged) map[string]any {
			return map[string]any{
				"evaluations":         m.Counters["evals"],
				"distinct_nontrivial": m.Distinct["nontrivial"],
				"configurations":      m.Counters["configs"],
				"distinct_cells":      m.Distinct["cells"],
				"rule":                "every answer section of length <=3 (quick) / <=4 (thorough) over 16 record kinds (CNAME safe/bad/case/excepted with owner chaining, A/AAAA safe/bad, AAAA holding the blocked IPv4 address in mapped form, HTTPS with no hint, bad v4 hint, bad v6 hint, clean first hint + bad later hint, hint list with bad last, TXT, MX) x 10 rule sets x (5 modes + 5 flag variants: AAAA disabled, protection off, filtering off, client filtering off + 1 variant in which the upstream answers NXDOMAIN with the same answer section + 1 variant with the records of the answer in the opposite order + 1 with upper-case owner names + 2 variants with the proxy's answer cache on, where every question is asked twice and the second, cached, response is judged) x 5 query types, through the real pipeline with a scripted upstream; oracle: first record exposing a host the rule model blocks => blocking-mode response for the query's type (no upstream data) and a log entry with original answer; else the upstream answer unchanged. distinct_nontrivial = distinct (configuration, qtype, answer section) where some record is blocked",
			}
		},
		Assumptions: []string{"single-rule matching delegated to urlfilter", "with AAAA disabled and response filtering applicable, HTTPS records are accepted with or without their ipv6hint; where response filtering is not applicable the answer must be byte-identical", "a cached answer is compared without its TTL"},
	})
}
