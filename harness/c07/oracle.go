package main

import (
	"encoding/json"
	"fmt"
	"math"
	"net/http"
	"sort"
	"strconv"
	"strings"
	"time"
)

// apiEntry is one element of "data" in the API answer.
type apiEntry struct {
	Answer     []ans  `json:"answer"`
	Orig       []ans  `json:"original_answer"`
	DNSSEC     *bool  `json:"answer_dnssec"`
	Cached     bool   `json:"cached"`
	Client     string `json:"client"`
	ClientID   string `json:"client_id"`
	ClientInfo *struct {
		Name string `json:"name"`
	} `json:"client_info"`
	ClientProto string  `json:"client_proto"`
	ECS         string  `json:"ecs"`
	Elapsed     string  `json:"elapsedMs"`
	FilterID    *int    `json:"filterId"`
	Rule        *string `json:"rule"`
	Question    struct {
		Class   string `json:"class"`
		Name    string `json:"name"`
		Type    string `json:"type"`
		Unicode string `json:"unicode_name"`
	} `json:"question"`
	Reason string `json:"reason"`
	Rules  []struct {
		ID   int    `json:"filter_list_id"`
		Text string `json:"text"`
	} `json:"rules"`
	Service  string `json:"service_name"`
	Status   string `json:"status"`
	Time     string `json:"time"`
	Upstream string `json:"upstream"`
}

type apiResp struct {
	Data   []apiEntry `json:"data"`
	Oldest string     `json:"oldest"`
}

func fmtAns(a []ans) string {
	if a == nil {
		return "(absent)"
	}
	b, _ := json.Marshal(a)
	return string(b)
}

// compareFields returns the name of the first field of got that differs from
// what e was recorded with, plus got/want texts.
func compareFields(got *apiEntry, e refEntry, anonNow bool) (field, g, w string) {
	k := &kinds[e.K]
	wantIP := e.IP
	if anonNow {
		wantIP = maskIP(e.IP)
	}
	type fw struct{ name, got, want string }
	rulesGot := make([]string, 0, len(got.Rules))
	for _, r := range got.Rules {
		rulesGot = append(rulesGot, fmt.Sprintf("%d:%s", r.ID, r.Text))
	}
	rulesWant := make([]string, 0, len(k.XRules))
	for _, r := range k.XRules {
		rulesWant = append(rulesWant, fmt.Sprintf("%d:%s", r.ID, r.Text))
	}
	firstRuleGot, firstRuleWant := "(absent)", "(absent)"
	if got.Rule != nil || got.FilterID != nil {
		t, id := "(nil)", "(nil)"
		if got.Rule != nil {
			t = *got.Rule
		}
		if got.FilterID != nil {
			id = strconv.Itoa(*got.FilterID)
		}
		firstRuleGot = id + ":" + t
	}
	if len(k.XRules) > 0 && k.XRules[0].Text != "" {
		firstRuleWant = fmt.Sprintf("%d:%s", k.XRules[0].ID, k.XRules[0].Text)
	}
	dnssecGot, dnssecWant := "(absent)", "(absent)"
	if got.DNSSEC != nil {
		dnssecGot = strconv.FormatBool(*got.DNSSEC)
	}
	if k.XStatus != "" {
		dnssecWant = strconv.FormatBool(k.XDNSSEC)
	}
	fs := []fw{
		{"time", got.Time, e.T.Format(time.RFC3339Nano)},
		{"client", got.Client, wantIP},
		{"client_id", got.ClientID, k.ClientID},
		{"client_proto", got.ClientProto, string(k.Proto)},
		{"question.name", got.Question.Name, k.XName},
		{"question.unicode_name", got.Question.Unicode, k.XUnicode},
		{"question.type", got.Question.Type, k.XType},
		{"question.class", got.Question.Class, k.XClass},
		{"ecs", got.ECS, k.ECS},
		{"upstream", got.Upstream, k.Upstream},
		{"elapsedMs", normMs(got.Elapsed), k.XElapsed},
		{"cached", strconv.FormatBool(got.Cached), strconv.FormatBool(k.Cached)},
		{"reason", got.Reason, k.XReason},
		{"rules", strings.Join(rulesGot, " ; "), strings.Join(rulesWant, " ; ")},
		{"rule+filterId", firstRuleGot, firstRuleWant},
		{"service_name", got.Service, k.XService},
		{"status", got.Status, k.XStatus},
		{"answer_dnssec", dnssecGot, dnssecWant},
		{"answer", fmtAns(got.Answer), fmtAns(k.XAnswer)},
		{"original_answer", fmtAns(got.Orig), fmtAns(k.XOrig)},
	}
	if wantIP == e.IP {
		gn := ""
		if got.ClientInfo != nil {
			gn = got.ClientInfo.Name
		}
		fs = append(fs, fw{"client_info.name", gn, refClientName(k.ClientID, e.IP)})
	}
	for _, f := range fs {
		if f.got != f.want {
			return f.name, f.got, f.want
		}
	}
	return "", "", ""
}

// normMs rounds the API's float milliseconds to the nanosecond; the text is
// the product of two floats and may carry representation noise.
func normMs(s string) string {
	f, err := strconv.ParseFloat(s, 64)
	if err != nil {
		return s
	}
	return strconv.FormatFloat(math.Round(f*1e6)/1e6, 'f', -1, 64)
}

// maskIP is the reference's anonymisation: IPv4 keeps two octets, IPv6 keeps
// six.
func maskIP(ip string) string {
	for i := range kinds {
		if kinds[i].IP == ip || kinds[i].MaskedIP == ip {
			return kinds[i].MaskedIP
		}
	}
	panic("maskIP: unknown address " + ip)
}

// ---- independent predicates ------------------------------------------------

func fold(s string) string { return strings.ToLower(s) }

// matchSearch says whether the entry satisfies the search term: the term
// (quoted = whole value, otherwise substring; letter case ignored) is looked
// for in the domain name (ASCII and Unicode form), the ClientID, the recorded
// client address and the name of the client the registry knows for them.
func matchSearch(e refEntry, term string) bool {
	if term == "" {
		return true
	}
	k := &kinds[e.K]
	strict := false
	if len(term) >= 2 && term[0] == '"' && term[len(term)-1] == '"' {
		strict, term = true, term[1:len(term)-1]
	}
	fields := []string{k.XName, k.ClientID, e.IP, refClientName(k.ClientID, e.IP)}
	if k.XUnicode != "" {
		fields = append(fields, k.XUnicode)
	}
	for _, f := range fields {
		if strict {
			if fold(f) == fold(term) {
				return true
			}
		} else if strings.Contains(fold(f), fold(term)) {
			return true
		}
	}
	return false
}

var validStatuses = []string{"all", "filtered", "blocked", "blocked_services", "blocked_safebrowsing", "blocked_parental", "whitelisted", "rewritten", "safe_search", "processed"}

func isValidStatus(s string) bool {
	for _, v := range validStatuses {
		if v == s {
			return true
		}
	}
	return false
}

// matchStatus is written from the documented meaning of the values.
func matchStatus(e refEntry, status string) bool {
	k := &kinds[e.K]
	r := k.XReason
	blockedByList := k.XFiltered && r == "FilteredBlackList"
	blockedService := k.XFiltered && r == "FilteredBlockedService"
	allowed := r == "NotFilteredWhiteList"
	rewritten := r == "Rewrite" || r == "RewriteEtcHosts" || r == "RewriteRule"
	switch status {
	case "", "all":
		return true
	case "filtered": // every kind of filtering
		return k.XFiltered || allowed || rewritten
	case "blocked": // blocked by a list or a blocked service
		return blockedByList || blockedService
	case "blocked_services":
		return blockedService
	case "blocked_safebrowsing":
		return k.XFiltered && r == "FilteredSafeBrowsing"
	case "blocked_parental":
		return k.XFiltered && r == "FilteredParental"
	case "whitelisted":
		return allowed
	case "rewritten":
		return rewritten
	case "safe_search":
		return k.XFiltered && r == "FilteredSafeSearch"
	case "processed": // not blocked, not allow-listed
		return !(r == "FilteredBlackList" || r == "FilteredBlockedService") && !allowed
	}
	return false
}

// ---- request evaluation -----------------------------------------------------

type parsedReq struct {
	limit, offset       int64
	hasLimit, hasOffset bool
	badLimit, badOffset bool
	ot                  time.Time
	hasOT, badOT        bool
	badStatus           bool
}

func parseReq(r request) (p parsedReq) {
	p.limit = 500
	if r.Limit != "" {
		if v, err := strconv.ParseInt(r.Limit, 10, 64); err == nil {
			p.limit, p.hasLimit = v, true
		} else {
			p.badLimit = true
		}
	}
	if r.Offset != "" {
		if v, err := strconv.ParseInt(r.Offset, 10, 64); err == nil {
			p.offset, p.hasOffset = v, true
		} else {
			p.badOffset = true
		}
	}
	if r.OlderThan != "" {
		if t, err := time.Parse(time.RFC3339Nano, r.OlderThan); err == nil {
			p.ot, p.hasOT = t, true
		} else {
			p.badOT = true
		}
	}
	p.badStatus = r.Status != "" && !isValidStatus(r.Status)
	return p
}

// diff is the verdict on one request.
type diff struct {
	Class  string // "" = fine; crash, http-status, lost, unexpected, field, oldest, body
	Detail string // short, key-safe
	Desc   string // human text
}

type evalResult struct {
	d      diff
	times  []time.Time
	oldest string
	exact  bool // the answer was compared with the full expectation
	status int
}

func crashClass(p parsedReq, msg string) string {
	var c string
	switch {
	case p.limit < 0:
		c = "negative-limit"
	case p.offset < 0:
		c = "negative-offset"
	case p.offset > math.MaxInt64-p.limit:
		c = "limit+offset-overflow"
	case p.badLimit || p.badOffset || p.badOT || p.badStatus:
		c = "malformed-parameter"
	default:
		c = "valid-parameters"
	}
	m := msg
	if i := strings.IndexAny(m, "[0123456789"); i > 0 {
		m = m[:i]
	}
	m = strings.Trim(strings.ReplaceAll(strings.TrimPrefix(m, "runtime error: "), " ", "-"), "-:")
	return c + ":" + m
}

// eval sends r and judges the answer against ref (newest first).
func eval(e *env, m *model, r request) (res evalResult) {
	p := parseReq(r)
	hr := e.call(http.MethodGet, "/control/querylog", r.rawQuery(), nil)
	res.status = hr.Status
	if hr.Panic != "" {
		res.d = diff{"crash", crashClass(p, hr.Panic), fmt.Sprintf("the handler panicked: %s\n%s", hr.Panic, firstFrames(hr.Stack))}
		return res
	}
	if hr.Status >= 500 {
		res.d = diff{"http-status", strconv.Itoa(hr.Status), fmt.Sprintf("HTTP %d: %s", hr.Status, hr.Body)}
		return res
	}
	lenient := p.badLimit || p.badOffset || p.badOT || p.badStatus || p.limit < 0 || p.offset < 0 || p.offset > math.MaxInt64-p.limit
	if lenient {
		// Only "does not crash" is demanded; 200 and 400 are both fine.
		if hr.Status != 200 && hr.Status != 400 {
			res.d = diff{"http-status", strconv.Itoa(hr.Status), fmt.Sprintf("HTTP %d: %s", hr.Status, hr.Body)}
		}
		return res
	}
	if hr.Status != 200 {
		res.d = diff{"http-status", strconv.Itoa(hr.Status), fmt.Sprintf("HTTP %d for well-formed parameters: %s", hr.Status, hr.Body)}
		return res
	}
	var ar apiResp
	if err := json.Unmarshal(hr.Body, &ar); err != nil {
		res.d = diff{"body", "not-json", fmt.Sprintf("answer is not the documented JSON: %v: %s", err, hr.Body)}
		return res
	}
	res.oldest = ar.Oldest
	ref := m.newestFirst()
	byTime := map[int64]int{}
	for i, x := range ref {
		byTime[x.T.UnixNano()] = i
	}
	// Candidates: older than the cursor and satisfying the filters.
	var cand []refEntry
	for _, x := range ref {
		if p.hasOT && !x.T.Before(p.ot) {
			continue
		}
		if matchSearch(x, r.Search) && matchStatus(x, r.Status) {
			cand = append(cand, x)
		}
	}
	lo, hi := p.offset, p.offset+p.limit
	if lo > int64(len(cand)) {
		lo = int64(len(cand))
	}
	if hi > int64(len(cand)) {
		hi = int64(len(cand))
	}
	want := cand[lo:hi]
	cursorIsEntry := true
	if p.hasOT {
		_, cursorIsEntry = byTime[p.ot.UnixNano()]
	}
	res.exact = cursorIsEntry

	seen := map[int64]bool{}
	gotIdx := make([]int, 0, len(ar.Data))
	for i := range ar.Data {
		t, err := time.Parse(time.RFC3339Nano, ar.Data[i].Time)
		if err != nil {
			res.d = diff{"body", "bad-time", fmt.Sprintf("entry %d has time %q", i, ar.Data[i].Time)}
			return res
		}
		res.times = append(res.times, t)
		idx, ok := byTime[t.UnixNano()]
		switch {
		case !ok:
			res.d = diff{"unexpected", "entry-not-in-log", fmt.Sprintf("entry %d (time %s, %s) is not a live recorded entry (cleared, aged out or never recorded)", i, ar.Data[i].Time, ar.Data[i].Question.Name)}
		case seen[t.UnixNano()]:
			res.d = diff{"unexpected", "duplicate[" + m.tierOf(t) + "]", fmt.Sprintf("the entry of %s (%s) is returned twice", ar.Data[i].Time, m.tierOf(t))}
		case p.hasOT && !t.Before(p.ot):
			res.d = diff{"unexpected", "not-older-than-cursor", fmt.Sprintf("entry %d (%s) is not older than older_than=%s", i, ar.Data[i].Time, r.OlderThan)}
		case !matchSearch(ref[idx], r.Search):
			res.d = diff{"unexpected", "not-matching-search", fmt.Sprintf("entry %d (%s, %s) does not satisfy search=%s", i, ar.Data[i].Time, ar.Data[i].Question.Name, r.Search)}
		case !matchStatus(ref[idx], r.Status):
			res.d = diff{"unexpected", "not-matching-status", fmt.Sprintf("entry %d (%s, reason %s) does not satisfy response_status=%s", i, ar.Data[i].Time, ar.Data[i].Reason, r.Status)}
		case len(gotIdx) > 0 && idx < gotIdx[len(gotIdx)-1]:
			res.d = diff{"unexpected", "out-of-order", fmt.Sprintf("entry %d (%s) is newer than the entry before it", i, ar.Data[i].Time)}
		}
		if res.d.Class != "" {
			return res
		}
		seen[t.UnixNano()] = true
		gotIdx = append(gotIdx, idx)
		if f, g, w := compareFields(&ar.Data[i], ref[idx], m.anon); f != "" {
			res.d = diff{"field", f + "[" + m.tierOf(t) + "]", fmt.Sprintf("entry of %s (%s, kind %s, %s): %s is %q, recorded %q", ar.Data[i].Time, ref[idx].IP, kinds[ref[idx].K].Name, m.tierOf(t), f, g, w)}
			return res
		}
	}
	if !res.exact {
		// older_than is not a timestamp the API handed out: the statement
		// promises nothing about completeness; soundness was checked above.
		return res
	}
	if int64(len(res.times)) > p.limit {
		res.d = diff{"unexpected", "more-than-limit", fmt.Sprintf("%d entries returned for limit=%d", len(res.times), p.limit)}
		return res
	}
	for i, w := range want {
		if i >= len(res.times) || !res.times[i].Equal(w.T) {
			tier := m.tierOf(w.T)
			det := tier
			if m.newestOnDisk(w.T) {
				det = "newest-record-on-disk"
			}
			gotT := "(end of answer)"
			if i < len(res.times) {
				gotT = res.times[i].Format(time.RFC3339Nano)
			}
			res.d = diff{"lost", det, fmt.Sprintf("position %d should be the entry of %s (%s, kind %s) but is %s; expected %s, got %s",
				i, w.T.Format(time.RFC3339Nano), tier, kinds[w.K].Name, gotT, fmtRef(want), fmtTimes(res.times))}
			return res
		}
	}
	if len(res.times) > len(want) {
		res.d = diff{"unexpected", "beyond-window", fmt.Sprintf("%d entries returned, %d expected: expected %s, got %s", len(res.times), len(want), fmtRef(want), fmtTimes(res.times))}
		return res
	}
	if len(want) > 0 {
		if wo := want[len(want)-1].T.Format(time.RFC3339Nano); ar.Oldest != wo {
			res.d = diff{"oldest", "not-the-last-returned-entry", fmt.Sprintf("oldest=%q, last returned entry is %s", ar.Oldest, wo)}
		}
	}
	return res
}

func fmtRef(es []refEntry) string {
	var l []string
	for _, e := range es {
		l = append(l, fmt.Sprintf("+%ds", int(e.T.Sub(t0)/time.Second)))
	}
	return "[" + strings.Join(l, " ") + "]"
}

func fmtTimes(ts []time.Time) string {
	var l []string
	for _, t := range ts {
		l = append(l, fmt.Sprintf("+%ds", int(t.Sub(t0)/time.Second)))
	}
	return "[" + strings.Join(l, " ") + "]"
}

func firstFrames(stack string) string {
	var out []string
	for _, l := range strings.Split(stack, "\n") {
		if strings.Contains(l, "/internal/querylog/") && !strings.Contains(l, "zz_verif") {
			out = append(out, strings.TrimSpace(l))
			if len(out) == 3 {
				break
			}
		}
	}
	return strings.Join(out, "\n")
}

// viol is one reportable failure.
type viol struct {
	Key   string
	Desc  string
	Check check
}

// check identifies what to re-run for a replay.
type check struct {
	Type  string   `json:"type"` // query cursor-paging offset-paging roundtrip quickmatch state
	Req   *request `json:"request,omitempty"`
	Limit int      `json:"page_limit,omitempty"`
	Line  string   `json:"line,omitempty"`
}

var searchClass = map[string]string{}

func classOfSearch(s string) string {
	if c, ok := searchClass[s]; ok {
		return c
	}
	return "other"
}

// checkQuery evaluates r and, when it fails, reduces it to the smallest
// request class that still fails so that one defect yields one key.
func checkQuery(e *env, m *model, r request) (*viol, evalResult) {
	res := eval(e, m, r)
	if res.d.Class == "" {
		return nil, res
	}
	fr, fres := r, res
	if res.d.Class != "crash" {
		// Try the request with parameters removed, fewest remaining
		// parameters first; keep the first variant that still fails.
		vals := [5]*string{&r.OlderThan, &r.Limit, &r.Offset, &r.Search, &r.Status}
		var present []int
		for i, v := range vals {
			if *v != "" {
				present = append(present, i)
			}
		}
		type cand struct {
			keep int // bit set over present
			n    int
		}
		var cands []cand
		for keep := 0; keep < 1<<len(present)-1; keep++ { // the full set is r itself
			n := 0
			for b := range present {
				if keep>>b&1 == 1 {
					n++
				}
			}
			cands = append(cands, cand{keep, n})
		}
		sort.SliceStable(cands, func(i, j int) bool { return cands[i].n < cands[j].n })
		for _, cd := range cands {
			r2 := request{}
			dst := [5]*string{&r2.OlderThan, &r2.Limit, &r2.Offset, &r2.Search, &r2.Status}
			for b, i := range present {
				if cd.keep>>b&1 == 1 {
					*dst[i] = *vals[i]
				}
			}
			if x := eval(e, m, r2); x.d.Class != "" && x.d.Class != "crash" {
				fr, fres = r2, x
				break
			}
		}
	}
	p := parseReq(fr)
	key := "query"
	if fres.d.Class == "crash" {
		key = "crash:" + fres.d.Detail
	} else {
		if p.hasOT {
			key += ":older_than[cursor-entry-in=" + m.tierOf(p.ot) + "]"
		}
		if fr.Offset != "" {
			key += ":offset"
		}
		if fr.Limit != "" {
			key += ":limit"
		}
		if fr.Search != "" {
			key += ":search=" + classOfSearch(fr.Search)
		}
		if fr.Status != "" {
			key += ":status=" + fr.Status
		}
		key += ":" + fres.d.Class + "=" + fres.d.Detail
	}
	rr := fr
	return &viol{Key: key, Desc: fmt.Sprintf("GET /control/querylog?%s : %s\nstored: rotated %s current %s memory %s (seconds after start), anonymize=%v",
		decodedQuery(fr), fres.d.Desc, fmtRef(m.rot), fmtRef(m.cur), fmtRef(m.mem), m.anon), Check: check{Type: "query", Req: &rr}}, res
}

func decodedQuery(r request) string {
	var l []string
	for _, kv := range [][2]string{{"limit", r.Limit}, {"offset", r.Offset}, {"older_than", r.OlderThan}, {"search", r.Search}, {"response_status", r.Status}} {
		if kv[1] != "" {
			l = append(l, kv[0]+"="+kv[1])
		}
	}
	return strings.Join(l, "&")
}

func filterRef(m *model, search, status string) (out []refEntry) {
	for _, x := range m.newestFirst() {
		if matchSearch(x, search) && matchStatus(x, status) {
			out = append(out, x)
		}
	}
	return out
}

func equalTimes(ts []time.Time, es []refEntry) bool { return sameTimes(ts, es) }

// checkCursorPaging follows the returned "oldest" cursor page by page.
func checkCursorPaging(e *env, m *model, limit int, search, status string, queries *int64) *viol {
	want := filterRef(m, search, status)
	var got []time.Time
	cursor := ""
	ck := check{Type: "cursor-paging", Limit: limit, Req: &request{Search: search, Status: status}}
	for step := 0; ; step++ {
		r := request{Limit: strconv.Itoa(limit), OlderThan: cursor, Search: search, Status: status}
		*queries++
		v, res := checkQuery(e, m, r)
		if v != nil {
			v.Desc = fmt.Sprintf("page %d of paging by the returned cursor (limit=%d): %s", step+1, limit, v.Desc)
			return v
		}
		got = append(got, res.times...)
		if res.oldest == "" {
			break
		}
		if step > len(want)+3 {
			return &viol{Key: "paging:cursor:does-not-terminate", Desc: fmt.Sprintf("paging with limit=%d search=%q status=%q still returns a cursor after %d pages", limit, search, status, step+1), Check: ck}
		}
		cursor = res.oldest
	}
	if !equalTimes(got, want) {
		return &viol{Key: "paging:cursor:pages-do-not-partition-the-log", Desc: fmt.Sprintf("pages by cursor (limit=%d search=%q status=%q) concatenate to %s, expected %s", limit, search, status, fmtTimes(got), fmtRef(want)), Check: ck}
	}
	return nil
}

// checkOffsetPaging walks offset = 0, limit, 2*limit, ... until an empty page.
func checkOffsetPaging(e *env, m *model, limit int, search, status string, queries *int64) *viol {
	want := filterRef(m, search, status)
	var got []time.Time
	ck := check{Type: "offset-paging", Limit: limit, Req: &request{Search: search, Status: status}}
	for off := 0; ; off += limit {
		r := request{Limit: strconv.Itoa(limit), Offset: strconv.Itoa(off), Search: search, Status: status}
		*queries++
		v, res := checkQuery(e, m, r)
		if v != nil {
			v.Desc = fmt.Sprintf("page at offset %d of offset/limit paging (limit=%d): %s", off, limit, v.Desc)
			return v
		}
		if len(res.times) == 0 {
			break
		}
		got = append(got, res.times...)
		if off > len(want)+3*limit {
			return &viol{Key: "paging:offset:does-not-terminate", Desc: fmt.Sprintf("offset paging with limit=%d search=%q status=%q never returns an empty page", limit, search, status), Check: ck}
		}
	}
	if !equalTimes(got, want) {
		return &viol{Key: "paging:offset:pages-do-not-partition-the-log", Desc: fmt.Sprintf("pages by offset (limit=%d search=%q status=%q) concatenate to %s, expected %s", limit, search, status, fmtTimes(got), fmtRef(want)), Check: ck}
	}
	return nil
}

// checkRoundTrip: the streaming decoder must give back what was encoded.
func checkRoundTrip(e *env, tier, line string) *viol {
	again := e.v.DecodeRemarshal(line)
	if again == line {
		return nil
	}
	field := firstDifferingKey(line, again)
	return &viol{Key: "decode:stored-line-does-not-round-trip:" + field, Desc: fmt.Sprintf("a %s line decoded by the query log's decoder and encoded again differs in %s:\nstored  %s\ndecoded %s", tier, field, line, again),
		Check: check{Type: "roundtrip", Line: line}}
}

func firstDifferingKey(a, b string) string {
	var ma, mb map[string]json.RawMessage
	if json.Unmarshal([]byte(a), &ma) != nil || json.Unmarshal([]byte(b), &mb) != nil {
		return "unparsable"
	}
	keys := []string{"T", "QH", "QT", "QC", "ECS", "CID", "CP", "Upstream", "Answer", "OrigAnswer", "IP", "Elapsed", "Cached", "AD"}
	for _, k := range keys {
		if string(ma[k]) != string(mb[k]) {
			return k
		}
	}
	var ra, rb map[string]json.RawMessage
	_ = json.Unmarshal(ma["Result"], &ra)
	_ = json.Unmarshal(mb["Result"], &rb)
	for _, k := range []string{"DNSRewriteResult", "CanonName", "ServiceName", "IPList", "Rules", "Reason", "IsFiltered"} {
		if string(ra[k]) != string(rb[k]) {
			return "Result." + k
		}
	}
	return "other"
}
