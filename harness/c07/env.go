package main

import (
	"bytes"
	"context"
	"encoding/json"
	"fmt"
	"io"
	"log/slog"
	"net/http"
	"net/http/httptest"
	"net/netip"
	"net/url"
	"os"
	"path/filepath"
	"runtime/debug"
	"strings"
	"time"

	"github.com/AdguardTeam/AdGuardHome/internal/aghnet"
	"github.com/AdguardTeam/AdGuardHome/internal/querylog"
	vtime "github.com/AdguardTeam/AdGuardHome/verifx/vtime"
)

var discard = slog.New(slog.NewTextHandler(io.Discard, &slog.HandlerOptions{Level: slog.LevelError + 4}))

var t0 = time.Date(2026, 1, 1, 0, 0, 0, 0, time.UTC)

// cfg is the part of the configuration fixed for a whole history.
type cfg struct {
	Mem  uint `json:"mem_size"`
	File bool `json:"file_enabled"`
}

// op is one operation of the alphabet.
type op struct {
	Kind string `json:"op"` // rec flush rotate clear enabled anon restart
	K    int    `json:"kind,omitempty"`
}

func (o op) String() string {
	if o.Kind == "rec" {
		return fmt.Sprintf("rec(%s)", kinds[o.K].Name)
	}
	return o.Kind
}

// refEntry is one recorded query in the reference.
type refEntry struct {
	K  int
	T  time.Time
	IP string // client address as given to Add (after record-time anonymisation)
}

// model is the reference: three lists, oldest first, and the two toggles.
type model struct {
	cf            cfg
	rot, cur, mem []refEntry
	enabled, anon bool
}

func (m *model) alive() []refEntry {
	out := make([]refEntry, 0, len(m.rot)+len(m.cur)+len(m.mem))
	out = append(out, m.rot...)
	out = append(out, m.cur...)
	return append(out, m.mem...)
}

// newestFirst is the sequence the API must return.
func (m *model) newestFirst() []refEntry {
	a := m.alive()
	for i, j := 0, len(a)-1; i < j; i, j = i+1, j-1 {
		a[i], a[j] = a[j], a[i]
	}
	return a
}

func (m *model) tierOf(t time.Time) string {
	for _, e := range m.mem {
		if e.T.Equal(t) {
			return "memory"
		}
	}
	for _, e := range m.cur {
		if e.T.Equal(t) {
			return "current-file"
		}
	}
	for _, e := range m.rot {
		if e.T.Equal(t) {
			return "rotated-file"
		}
	}
	return "none"
}

// newestOnDisk reports whether t is the newest record stored in a file.
func (m *model) newestOnDisk(t time.Time) bool {
	if n := len(m.cur); n > 0 {
		return m.cur[n-1].T.Equal(t)
	}
	if n := len(m.rot); n > 0 {
		return m.rot[n-1].T.Equal(t)
	}
	return false
}

// apply performs o on the reference.  applicable=false means the operation is
// not part of the alphabet in this configuration.
func (m *model) apply(o op, now time.Time, storedIP string) (outcome string, applicable bool) {
	switch o.Kind {
	case "rec":
		if !m.enabled {
			return "rec:logging-disabled-not-recorded", true
		}
		m.mem = append(m.mem, refEntry{K: o.K, T: now, IP: storedIP})
		if m.cf.File {
			if uint(len(m.mem)) >= m.cf.Mem {
				m.cur = append(m.cur, m.mem...)
				m.mem = nil
				return "rec:stored+buffer-full-flush", true
			}
			return "rec:stored-in-memory", true
		}
		if uint(len(m.mem)) > m.cf.Mem {
			m.mem = m.mem[1:]
			return "rec:stored+memory-only-eviction", true
		}
		return "rec:stored-in-memory", true
	case "flush":
		if !m.cf.File {
			return "", false
		}
		if len(m.mem) == 0 {
			return "flush:nothing", true
		}
		m.cur = append(m.cur, m.mem...)
		m.mem = nil
		return "flush:moved", true
	case "rotate":
		if len(m.cur) == 0 {
			return "rotate:no-current-file", true
		}
		out := "rotate:renamed"
		if len(m.rot) > 0 {
			out = "rotate:renamed+aged-out-old-file"
		}
		m.rot, m.cur = m.cur, nil
		return out, true
	case "get":
		return "get", true
	case "clear":
		out := "clear:empty"
		if len(m.rot)+len(m.cur)+len(m.mem) > 0 {
			out = "clear:removed"
		}
		m.rot, m.cur, m.mem = nil, nil, nil
		return out, true
	case "enabled":
		m.enabled = !m.enabled
		return fmt.Sprintf("config:enabled=%v", m.enabled), true
	case "anon":
		m.anon = !m.anon
		return fmt.Sprintf("config:anonymize=%v", m.anon), true
	case "restart":
		if !m.cf.File {
			return "", false
		}
		out := "restart:memory-empty"
		if len(m.mem) > 0 {
			out = "restart:flushed-memory"
			m.cur = append(m.cur, m.mem...)
			m.mem = nil
		}
		return out, true
	}
	panic("unknown op " + o.Kind)
}

func (m *model) key() string {
	var sb strings.Builder
	fmt.Fprintf(&sb, "mem=%d file=%v en=%v an=%v", m.cf.Mem, m.cf.File, m.enabled, m.anon)
	for _, t := range [][]refEntry{m.rot, m.cur, m.mem} {
		sb.WriteString("|")
		for _, e := range t {
			fmt.Fprintf(&sb, "%d@%s,", e.K, e.IP)
		}
	}
	return sb.String()
}

// env is one live instance of the real query log.
type env struct {
	dir      string
	ql       querylog.QueryLog
	v        *querylog.VerifC07Log
	anon     *aghnet.IPMut
	handlers map[string]http.HandlerFunc
	ignored  *aghnet.IgnoreEngine
}

func (e *env) open(conf querylog.Config) error {
	e.handlers = map[string]http.HandlerFunc{}
	conf.HTTPRegister = func(method, url string, h http.HandlerFunc) { e.handlers[method+" "+url] = h }
	conf.Anonymizer = e.anon
	ql, err := querylog.New(conf)
	if err != nil {
		return err
	}
	e.ql = ql
	e.v = querylog.VerifC07Wrap(ql)
	e.v.InitWeb()
	return nil
}

func newEnv(tmp string, cf cfg) (*env, error) {
	dir, err := os.MkdirTemp(tmp, "ql-")
	if err != nil {
		return nil, err
	}
	ign, err := aghnet.NewIgnoreEngine(nil)
	if err != nil {
		return nil, err
	}
	e := &env{dir: dir, anon: aghnet.NewIPMut(nil), ignored: ign}
	err = e.open(querylog.Config{
		Logger: discard, Ignored: ign, ConfigModified: func() {}, FindClient: findClient, BaseDir: dir,
		RotationIvl: 24 * time.Hour, MemSize: cf.Mem, Enabled: true, FileEnabled: cf.File,
	})
	if err != nil {
		_ = os.RemoveAll(dir)
		return nil, err
	}
	return e, nil
}

func (e *env) close() {
	_ = os.RemoveAll(e.dir)
}

type httpResult struct {
	Status int
	Body   []byte
	Panic  string // non-empty when the handler panicked
	Stack  string
}

// call runs a registered handler under recover.
func (e *env) call(method, path, rawQuery string, body []byte) (res httpResult) {
	h := e.handlers[method+" "+path]
	if h == nil {
		panic("handler not registered: " + method + " " + path)
	}
	target := path
	if rawQuery != "" {
		target += "?" + rawQuery
	}
	var rd io.Reader
	if body != nil {
		rd = bytes.NewReader(body)
	}
	req := httptest.NewRequest(method, target, rd)
	rec := httptest.NewRecorder()
	func() {
		defer func() {
			if r := recover(); r != nil {
				res.Panic = fmt.Sprint(r)
				res.Stack = string(debug.Stack())
			}
		}()
		h(rec, req)
	}()
	res.Status = rec.Code
	res.Body = rec.Body.Bytes()
	return res
}

const waitMax = 5 * time.Second

// do applies o to the real query log; now is the virtual time of a record.
func (e *env) do(o op, m *model) (storedIP string, err error) {
	switch o.Kind {
	case "rec":
		k := &kinds[o.K]
		ip := netip.MustParseAddr(k.IP).AsSlice()
		e.anon.Load()(ip) // the DNS server masks the address before handing it to the log
		storedIP, _ = func() (string, bool) { a, ok := netip.AddrFromSlice(ip); return a.String(), ok }()
		e.ql.Add(k.addParams(ip))
	case "flush":
		_ = e.v.Flush() // "nothing to write" on an empty buffer
	case "rotate":
		if err = e.v.Rotate(); err != nil {
			return "", fmt.Errorf("rotate: %w", err)
		}
	case "get":
		if r := e.call(http.MethodGet, "/control/querylog", "", nil); r.Panic != "" || r.Status != 200 {
			return "", fmt.Errorf("get: status %d panic %q", r.Status, r.Panic)
		}
	case "clear":
		if r := e.call(http.MethodPost, "/control/querylog_clear", "", nil); r.Panic != "" || r.Status != 200 {
			return "", fmt.Errorf("clear: status %d panic %q", r.Status, r.Panic)
		}
	case "enabled", "anon":
		en, an := m.enabled, m.anon // m is the state BEFORE the toggle
		if o.Kind == "enabled" {
			en = !en
		} else {
			an = !an
		}
		body := fmt.Sprintf(`{"enabled":%v,"anonymize_client_ip":%v,"interval":86400000,"ignored":[]}`, en, an)
		if r := e.call(http.MethodPut, "/control/querylog/config/update", "", []byte(body)); r.Panic != "" || r.Status != 200 {
			return "", fmt.Errorf("config update: status %d panic %q body %s", r.Status, r.Panic, r.Body)
		}
	case "restart":
		var conf querylog.Config
		e.ql.WriteDiskConfig(&conf)
		_ = e.ql.Shutdown(context.Background()) // flushes; "nothing to write" on an empty buffer
		var f aghnet.IPMutFunc
		if conf.AnonymizeClientIP {
			f = querylog.AnonymizeIP
		}
		e.anon = aghnet.NewIPMut(f)
		if err = e.open(conf); err != nil {
			return "", fmt.Errorf("restart: %w", err)
		}
	default:
		panic("unknown op")
	}
	if !e.v.WaitFlushIdle(waitMax) {
		return "", fmt.Errorf("asynchronous flush still pending after %s", waitMax)
	}
	return storedIP, nil
}

// layout is what is really stored: raw lines per tier, oldest first.
type layout struct {
	rot, cur, mem []string
}

func readLines(path string) []string {
	data, err := os.ReadFile(path)
	if err != nil || len(data) == 0 {
		return nil
	}
	return strings.Split(strings.TrimSuffix(string(data), "\n"), "\n")
}

func (e *env) observe() layout {
	f := filepath.Join(e.dir, "querylog.json")
	return layout{rot: readLines(f + ".1"), cur: readLines(f), mem: e.v.MemoryLines()}
}

func lineTimes(lines []string) ([]time.Time, error) {
	out := make([]time.Time, len(lines))
	for i, l := range lines {
		var x struct {
			T time.Time `json:"T"`
		}
		if err := json.Unmarshal([]byte(l), &x); err != nil {
			return nil, fmt.Errorf("stored line %q: %w", l, err)
		}
		out[i] = x.T
	}
	return out, nil
}

func sameTimes(ts []time.Time, es []refEntry) bool {
	if len(ts) != len(es) {
		return false
	}
	for i := range ts {
		if !ts[i].Equal(es[i].T) {
			return false
		}
	}
	return true
}

// runResult is what replaying a history yields.
type runResult struct {
	e          *env
	m          *model
	outcome    string // label of the last operation's effect
	applicable bool   // false: the last operation is not in this configuration's alphabet
	changed    bool   // the last operation changed the stored layout or a toggle
	layoutNote string // non-empty when the stored layout differed from the reference's prediction
	corrupt    bool   // the union of the stored entries differs from the reference
}

// run replays hist on a fresh instance.  The caller closes res.e.
func run(tmp string, cf cfg, hist []op) (res runResult, err error) {
	vtime.SetVirtual(t0)
	e, err := newEnv(tmp, cf)
	if err != nil {
		return res, err
	}
	m := &model{cf: cf, enabled: true}
	res.e, res.m, res.applicable = e, m, true
	for _, o := range hist {
		if o.Kind == "rec" {
			vtime.AdvanceVirtual(time.Second)
		}
		now := vtime.Now()
		if (o.Kind == "flush" || o.Kind == "restart") && !cf.File {
			res.applicable = false
			return res, nil
		}
		before := m.key()
		var stored string
		stored, err = e.do(o, m)
		if err != nil {
			return res, fmt.Errorf("%s: %w", o, err)
		}
		res.outcome, _ = m.apply(o, now, stored)
		// Where the entries really sit decides what a later rotation may age
		// out; follow the implementation when the union is intact.
		lay := e.observe()
		rt, e1 := lineTimes(lay.rot)
		ct, e2 := lineTimes(lay.cur)
		mt, e3 := lineTimes(lay.mem)
		switch {
		case e1 != nil || e2 != nil || e3 != nil:
			res.layoutNote, res.corrupt = fmt.Sprintf("unparsable stored line: %v %v %v", e1, e2, e3), true
		case sameTimes(rt, m.rot) && sameTimes(ct, m.cur) && sameTimes(mt, m.mem):
		default:
			all := append(append(append([]time.Time{}, rt...), ct...), mt...)
			if sameTimes(all, m.alive()) {
				a := m.alive()
				i, j := len(rt), len(rt)+len(ct)
				m.rot, m.cur, m.mem = a[:i:i], a[i:j:j], a[j:]
				res.layoutNote = "entries sit in other tiers than the reference predicts (union intact); the reference follows the implementation"
			} else {
				res.corrupt = true
				res.layoutNote = fmt.Sprintf("stored entries differ from the reference after %s: stored rotated %s current %s memory %s; reference rotated %s current %s memory %s",
					o, fmtTimes(rt), fmtTimes(ct), fmtTimes(mt), fmtRef(m.rot), fmtRef(m.cur), fmtRef(m.mem))
			}
		}
		res.changed = m.key() != before
	}
	return res, nil
}

// request is one GET /control/querylog; "" = parameter absent.
type request struct {
	Limit     string `json:"limit,omitempty"`
	Offset    string `json:"offset,omitempty"`
	OlderThan string `json:"older_than,omitempty"`
	Search    string `json:"search,omitempty"`
	Status    string `json:"response_status,omitempty"`
}

func (r request) rawQuery() string {
	v := url.Values{}
	for _, kv := range [][2]string{{"limit", r.Limit}, {"offset", r.Offset}, {"older_than", r.OlderThan}, {"search", r.Search}, {"response_status", r.Status}} {
		if kv[1] != "" {
			v.Set(kv[0], kv[1])
		}
	}
	return v.Encode()
}
