// C07 — the query log returns every recorded query exactly once, newest
// first, with paging.  Phase A: BFS over record / flush / rotate / clear /
// config / restart histories on the real queryLog (temp dir, virtual clock)
// against a three-list reference, observed through the real HTTP handler.
// Phase B: every combination of limit, offset, older_than, search and
// response_status on fixed layouts against an independent predicate, cursor
// and offset paging, quickMatch over-approximation (DESIGN.md §4 C07).
package main

import (
	"encoding/json"
	"fmt"
	"io"
	"net/http"
	"os"
	"path/filepath"
	"regexp"
	"runtime/debug"
	"sort"
	"strconv"
	"strings"
	"syscall"
	"time"

	"github.com/AdguardTeam/AdGuardHome/internal/verifx/lib"
	vtime "github.com/AdguardTeam/AdGuardHome/verifx/vtime"
	"github.com/AdguardTeam/golibs/log"
)

// vcase is the replayable form of one failing case.
type vcase struct {
	Phase  string `json:"phase"`
	Layout string `json:"layout,omitempty"`
	Cfg    cfg    `json:"config"`
	Hist   []op   `json:"history"`
	HistS  string `json:"history_text"`
	Check  check  `json:"check"`
	Bulk   *bulk  `json:"bulk,omitempty"`
}

func histString(h []op) string {
	l := make([]string, len(h))
	for i, o := range h {
		l[i] = o.String()
	}
	return "[" + strings.Join(l, ", ") + "]"
}

// ---- state checks (phase A, also used on phase B layouts) -----------------

// pageLimits are the page sizes walked in every phase A state (phase B walks
// 1, 2 and 3 under every filter).
func pageLimits(bool) []int { return []int{1, 2} }

// checkState runs every observation of phase A on the live instance.
func checkState(c *lib.Ctx, r *runResult) (vs []*viol) {
	e, m := r.e, r.m
	var q int64
	add := func(v *viol) {
		if v == nil {
			return
		}
		for _, x := range vs {
			if x.Key == v.Key {
				return
			}
		}
		vs = append(vs, v)
	}
	q++
	v, _ := checkQuery(e, m, request{})
	add(v)
	lay := e.observe()
	for _, t := range []struct {
		name  string
		lines []string
	}{{"rotated-file", lay.rot}, {"current-file", lay.cur}, {"memory (as it would be flushed)", lay.mem}} {
		for _, l := range t.lines {
			c.Count("roundtrip_checks", 1)
			add(checkRoundTrip(e, t.name, l))
		}
	}
	for _, lim := range pageLimits(c.Quick()) {
		add(checkCursorPaging(e, m, lim, "", "", &q))
		add(checkOffsetPaging(e, m, lim, "", "", &q))
		c.Count("paging_walks", 2)
	}
	c.Count("queries", q)
	return vs
}

// ---- work distribution ----------------------------------------------------------

// sharedDir is the directory all worker processes of one run write their
// partial results to (the value of the runner's -out flag); units of work are
// claimed there by exclusive file creation, so a fast worker takes more units.
// Which worker executes a unit does not influence what the unit does.
func sharedDir() string {
	for i, a := range os.Args {
		for _, pre := range []string{"-out=", "--out="} {
			if strings.HasPrefix(a, pre) {
				return filepath.Dir(strings.TrimPrefix(a, pre))
			}
		}
		if (a == "-out" || a == "--out") && i+1 < len(os.Args) {
			return filepath.Dir(os.Args[i+1])
		}
	}
	return ""
}

var claimDir = sharedDir()

func claim(c *lib.Ctx, phase string, unit int) bool {
	if c.ShardN <= 1 || claimDir == "" {
		return true
	}
	f, err := os.OpenFile(filepath.Join(claimDir, fmt.Sprintf("c07-claim-%s-%d", phase, unit)), os.O_CREATE|os.O_EXCL|os.O_WRONLY, 0o600)
	if err != nil {
		return false
	}
	_ = f.Close()
	return true
}

// ---- phase A ------------------------------------------------------------------

// samplesLeft: full histories put into the evidence file by this worker (the
// BFS library only sees the part of a history after the unit's first operation).
var samplesLeft = 4

// observedStates holds the state keys already checked within the current unit.
var observedStates = map[uint64]struct{}{}

func report(c *lib.Ctx, v *viol, vc vcase) {
	vc.HistS = histString(vc.Hist)
	vc.Check = v.Check
	c.Violation(v.Key, fmt.Sprintf("%s\nconfig: mem_size=%d file_enabled=%v; history: %s", v.Desc, vc.Cfg.Mem, vc.Cfg.File, vc.HistS), vc)
}

func violKeys(vs []*viol) string {
	l := make([]string, len(vs))
	for i, v := range vs {
		l[i] = v.Key
	}
	sort.Strings(l)
	return strings.Join(l, " ; ")
}

// execA executes one history and checks the reached state.  force re-checks a
// state whose key was already observed.
func execA(c *lib.Ctx, cf cfg, hist []op, force bool) (st lib.Step, vs []*viol, engineErr string) {
	r, err := run(c.TmpDir, cf, hist)
	if r.e != nil {
		defer r.e.close()
	}
	if err != nil {
		return st, nil, fmt.Sprintf("history %s (mem_size=%d file=%v): %v", histString(hist), cf.Mem, cf.File, err)
	}
	if !r.applicable {
		return st, nil, ""
	}
	st.Outcome = r.outcome
	st.NonTrivial = r.changed
	// The key carries the implementation's own stored lines (rotated file,
	// current file, memory buffer as it would be encoded), not only the
	// reference: two histories whose stored bytes differ are different states.
	lay := r.e.observe()
	key := r.m.key() + "|impl:" + implSig(lay)
	if r.layoutNote != "" {
		c.Count("layout_differs_from_reference", 1)
		c.Note("layout_differs_from_reference", r.layoutNote+" — history "+histString(hist))
	}
	h := lib.Hash(key)
	if _, done := observedStates[h]; !done || force || r.corrupt {
		vs = checkState(c, &r)
		if !r.corrupt {
			observedStates[h] = struct{}{}
		}
	}
	if !r.corrupt {
		st.Key = key
	}
	return st, vs, ""
}

// implSig summarises what the implementation itself has stored per tier: the
// number of lines and the client address and question of each (timestamps and
// packed messages vary with the history length and are compared by the oracle,
// not by the key).
var sigRe = regexp.MustCompile(`"(IP|QH|CID)":"([^"]*)"`)

func implSig(lay layout) string {
	var sb strings.Builder
	for _, tier := range [][]string{lay.rot, lay.cur, lay.mem} {
		fmt.Fprintf(&sb, "[%d", len(tier))
		for _, l := range tier {
			for _, m := range sigRe.FindAllStringSubmatch(l, -1) {
				sb.WriteString(" " + m[1] + "=" + m[2])
			}
			sb.WriteString(";")
		}
		sb.WriteString("]")
	}
	return sb.String()
}

func alphabetA(ks []int) []op {
	ops := []op{{Kind: "flush"}, {Kind: "rotate"}}
	for _, k := range ks {
		ops = append(ops, op{Kind: "rec", K: k})
	}
	// "get" is an API read as an operation of its own: reads must not change
	// what is stored (on correct code it is a self-loop and is not extended).
	return append(ops, op{Kind: "get"}, op{Kind: "clear"}, op{Kind: "restart"}, op{Kind: "enabled"}, op{Kind: "anon"})
}

var configs = []cfg{{1, true}, {2, true}, {3, true}, {100, true}, {2, false}}

type passA struct {
	kinds []int
	depth int
}

func passes(quick bool) []passA {
	if quick {
		return []passA{{[]int{2, 11, 8, 1}, 5}}
	}
	return []passA{{[]int{2, 11, 8, 1}, 6}, {[]int{2, 10}, 7}, {[]int{2, 11, 8, 1, 10, 6}, 5}}
}

func phaseA(c *lib.Ctx, unit *int) {
	for pi, ps := range passes(c.Quick()) {
		ops := alphabetA(ps.kinds)
		for _, cf := range configs {
			cf := cf
			// root
			rootSt, vs, ee := execA(c, cf, nil, false)
			if ee != "" {
				c.EngineError(ee)
				return
			}
			for _, v := range vs {
				report(c, v, vcase{Phase: "A", Cfg: cf})
			}
			for _, first := range ops {
				if c.Expired() {
					return
				}
				c.Distinct("phaseA_units", fmt.Sprintf("%d/%v/%s", pi, cf, first))
				mine := claim(c, "A", *unit)
				*unit++
				if !mine {
					continue
				}
				observedStates = map[uint64]struct{}{}
				prefix := []op{first}
				execOnce := func(h []op) (lib.Step, []*viol) {
					full := append(append([]op{}, prefix...), h...)
					st, vs, ee := execA(c, cf, full, false)
					if samplesLeft > 0 && len(full) == ps.depth && st.NonTrivial {
						samplesLeft--
						c.Sample(map[string]any{"config": cf, "history": histString(full), "outcome": st.Outcome})
					}
					if ee != "" {
						c.EngineError(ee)
						return lib.Step{}, nil
					}
					if len(vs) > 0 {
						// confirm on a fresh instance before reporting
						_, vs2, _ := execA(c, cf, full, true)
						if violKeys(vs) != violKeys(vs2) {
							c.EngineError(fmt.Sprintf("non-deterministic oracle on %s mem=%d: first %q then %q", histString(full), cf.Mem, violKeys(vs), violKeys(vs2)))
							return lib.Step{}, nil
						}
						for _, v := range vs {
							report(c, v, vcase{Phase: "A", Cfg: cf, Hist: full})
						}
					}
					return st, vs
				}
				st, _ := execOnce(nil)
				c.Count("transitions", 1)
				if st.Outcome != "" {
					c.Distinct("outcomes", st.Outcome)
				}
				if st.Key == "" {
					continue
				}
				if st.NonTrivial {
					c.Count("nontrivial_transitions", 1)
					c.Distinct("nontrivial", st.Key+"|"+st.Outcome)
				}
				c.Distinct("states", st.Key)
				if st.Key == rootSt.Key {
					// [no-op]+h reaches what h reaches; h is explored from the root.
					c.Count("units_skipped_first_op_is_noop", 1)
					continue
				}
				sn, si := c.ShardN, c.ShardI
				c.ShardN, c.ShardI = 1, 0
				b := &lib.BFS[op]{C: c, Ops: ops, MaxDepth: ps.depth - 1, Workers: 1,
					Exec: func(h []op) lib.Step { st, _ := execOnce(h); return st }}
				b.Run()
				c.ShardN, c.ShardI = sn, si
				if !c.Expired() {
					c.Count("phaseA_units_completed", 1)
					c.Max("max_depth_full", int64(ps.depth))
				}
			}
		}
		c.Note(fmt.Sprintf("phaseA_pass%d", pi+1), fmt.Sprintf("depth %d over %d operations (record kinds %v + flush rotate clear restart enabled-toggle anonymize-toggle) x configs (mem_size,file) %v", ps.depth, len(ops), kindNames(ps.kinds), configs))
	}
}

func kindNames(ks []int) []string {
	l := make([]string, len(ks))
	for i, k := range ks {
		l[i] = kinds[k].Name
	}
	return l
}

// ---- witness pre-pass -------------------------------------------------------------

// prepass runs in the first worker only, before everything else: every history
// up to depth 3 on the large-buffer configuration, shortest first, with the
// state checks, and at depth <= 1 also the window product and the malformed
// requests.  It adds no coverage beyond phases A and B; it makes the case that
// is kept for a violation key the shortest one, because the runner keeps the
// first case per key and prefers the first worker.
func prepass(c *lib.Ctx) {
	cf := cfg{100, true}
	ops := alphabetA(passes(true)[0].kinds)
	var level [][]op
	level = append(level, nil)
	for depth := 0; depth <= 3; depth++ {
		var next [][]op
		for _, h := range level {
			if c.Expired() {
				return
			}
			r, err := run(c.TmpDir, cf, h)
			if err != nil {
				c.EngineError(fmt.Sprintf("prepass %s: %v", histString(h), err))
				if r.e != nil {
					r.e.close()
				}
				return
			}
			c.Count("prepass_histories", 1)
			if r.applicable && !r.corrupt {
				base := vcase{Phase: "A", Cfg: cf, Hist: h}
				for _, v := range checkState(c, &r) {
					report(c, v, base)
				}
				if depth <= 1 {
					var q int64
					for _, lim := range limitsB {
						for _, off := range offsetsB {
							q++
							if v, _ := checkQuery(r.e, r.m, request{Limit: lim, Offset: off}); v != nil {
								report(c, v, base)
							}
						}
					}
					for _, rq := range malformedB {
						q++
						if v, _ := checkQuery(r.e, r.m, rq); v != nil {
							report(c, v, base)
						}
					}
					c.Count("queries", q)
				}
				for _, o := range ops {
					next = append(next, append(append([]op{}, h...), o))
				}
			}
			r.e.close()
		}
		level = next
	}
}

// ---- phase B ------------------------------------------------------------------

type layoutB struct {
	Name string
	Cfg  cfg
	Hist []op
	Full bool // full five-parameter product also in the quick tier
}

func recs(ks ...int) []op {
	var l []op
	for _, k := range ks {
		l = append(l, op{Kind: "rec", K: k})
	}
	return l
}

func seq(parts ...[]op) []op {
	var l []op
	for _, p := range parts {
		l = append(l, p...)
	}
	return l
}

var (
	fl  = []op{{Kind: "flush"}}
	rt  = []op{{Kind: "rotate"}}
	an  = []op{{Kind: "anon"}}
	enb = []op{{Kind: "enabled"}}
	rs  = []op{{Kind: "restart"}}
)

func layoutsB(quick bool) []layoutB {
	big := cfg{100, true}
	ls := []layoutB{
		{"three-tiers-all-kinds", big, seq(recs(0, 1, 2, 3, 4), fl, rt, recs(5, 6, 7, 8, 9), fl, recs(10, 11, 12, 13)), false},
		{"one-entry-per-tier", big, seq(recs(2), fl, rt, recs(11), fl, recs(1)), true},
		{"memory+current", big, seq(recs(2, 1), fl, recs(11, 2)), true},
		{"current+rotated", big, seq(recs(2, 11), fl, rt, recs(1, 2), fl), false},
		{"rotated+memory", big, seq(recs(2, 1), fl, rt, recs(11, 2)), false},
		{"memory-only", big, recs(2, 11, 1), false},
		{"current-only", big, seq(recs(2, 11, 1), fl), false},
		{"rotated-only", big, seq(recs(2, 11, 1), fl, rt), false},
		{"anonymize-switched-on-later", big, seq(recs(2), an, recs(2), fl, rt, recs(7), an, recs(4), fl, an, recs(4, 0)), false},
		{"anonymize-switched-off-again", big, seq(recs(2), an, recs(2, 4), fl, rt, recs(7), fl, recs(9), an, recs(2)), false},
		{"mem-size-2-natural-flushes", cfg{2, true}, seq(recs(0, 2, 11, 1), rt, recs(7, 2, 4)), false},
		{"memory-only-log", cfg{3, false}, recs(2, 11, 1, 7), false},
		{"one-unknown-clientid-from-two-clients", big, seq(recs(15, 16, 2), fl, recs(16, 15)), false},
		{"disabled-interval+restart", big, seq(recs(2), fl, enb, recs(1, 11), enb, recs(7), rs, rt, recs(11), rs, recs(10)), false},
	}
	if !quick {
		ls = append(ls,
			layoutB{"three-tiers-all-kinds-shifted", big, seq(recs(10, 11, 12, 13, 0), fl, rt, recs(1, 2, 3, 4), fl, recs(5, 6, 7, 8, 9)), true},
			layoutB{"three-tiers-repeated-kinds", big, seq(recs(2, 2, 11, 2), fl, rt, recs(11, 2, 2), fl, recs(2, 11, 2)), true},
		)
	}
	return ls
}

type termB struct{ Term, Class string }

func termsB(quick bool) []termB {
	ts := []termB{
		{"", ""},
		{"example", "substring"},
		{"ADS.exam", "substring-other-case"},
		{`"ads.example"`, "quoted-exact-name"},
		{`"example"`, "quoted-part-of-a-name"},
		{"пример.рф", "idn-unicode"},
		{`"пример.рф"`, "idn-unicode-quoted"},
		{"xn--e1afmkfd", "idn-punycode-label"},
		{"cid-a", "clientid"},
		{`"cid-b"`, "clientid-quoted"},
		{"alice", "client-name"},
		{`"bobphone"`, "client-name-quoted"},
		{"10.0.0.2", "ip"},
		{"10.0.0", "ip-part"},
		{"zz-no-match", "no-match"},
		{"caroltv", "client-name-other"},
		{"ПРИМЕР.РФ", "idn-unicode-upper-case"},
	}
	if !quick {
		ts = append(ts, termB{`"Пример.рф"`, "idn-unicode-mixed-case-quoted"}, termB{`"alice laptop"`, "client-name-quoted-with-space"},
			termB{"2001:db8::", "ip6-part"}, termB{`"xn--e1afmkfd.xn--p1ai"`, "idn-punycode-quoted"}, termB{"Пример", "idn-unicode-label"})
	}
	return ts
}

func init() {
	for _, t := range termsB(false) {
		searchClass[t.Term] = t.Class
	}
}

var (
	limitsB  = []string{"", "-1", "0", "1", "2", "3", "500", "9223372036854775807"}
	offsetsB = []string{"", "-1", "0", "1", "2", "5", "1000000000"}
)

func statusesB() []string {
	return append(append([]string{""}, validStatuses...), "bogus")
}

// olderThansB: absent, each entry's timestamp, between neighbours, before the
// first, after the last, malformed.
func olderThansB(m *model) []string {
	a := m.alive()
	out := []string{""}
	for _, e := range a {
		out = append(out, e.T.Format(time.RFC3339Nano))
	}
	for i := 0; i+1 < len(a); i++ {
		out = append(out, a[i].T.Add(a[i+1].T.Sub(a[i].T)/2).Format(time.RFC3339Nano))
	}
	if len(a) > 0 {
		out = append(out, a[0].T.Add(-time.Second).Format(time.RFC3339Nano), a[len(a)-1].T.Add(time.Second).Format(time.RFC3339Nano))
	}
	return append(out, "yesterday")
}

var malformedB = []request{
	{Limit: "abc"}, {Limit: "1.5"}, {Limit: "9223372036854775808"}, {Limit: "-9223372036854775808"}, {Limit: " 1"}, {Limit: "0x10"},
	{Offset: "abc"}, {Offset: "-9223372036854775808"}, {Offset: "9223372036854775807"}, {Offset: "9223372036854775807", Limit: "9223372036854775807"},
	{Offset: "-9223372036854775808", Limit: "-1"}, {Offset: "-1", Limit: "1"}, {Offset: "-5", Limit: "2"},
	{OlderThan: "2026-01-01"}, {OlderThan: "1767225600"}, {OlderThan: "2026-01-01T00:00:05+25:00"}, {OlderThan: "0000-00-00T00:00:00Z"},
	{OlderThan: "2026-01-01T00:00:02Z", Limit: "-1"}, {Status: "ALL"}, {Status: `"all"`}, {Search: `"`}, {Search: `""`}, {Search: "%"}, {Search: "\x00"},
	{Search: strings.Repeat("a", 5000)}, {Search: "xn--"}, {Search: `"xn--zz"`}, {Search: "\xff\xfe"},
}

func phaseB(c *lib.Ctx, unit *int) {
	terms := termsB(c.Quick())
	for _, lb := range layoutsB(c.Quick()) {
		if c.Expired() {
			return
		}
		r, err := run(c.TmpDir, lb.Cfg, lb.Hist)
		if err != nil {
			c.EngineError(fmt.Sprintf("layout %s: %v", lb.Name, err))
			if r.e != nil {
				r.e.close()
			}
			return
		}
		func() {
			defer r.e.close()
			e, m := r.e, r.m
			base := vcase{Phase: "B", Layout: lb.Name, Cfg: lb.Cfg, Hist: lb.Hist}
			if r.layoutNote != "" {
				c.Count("layout_differs_from_reference", 1)
				c.Note("layout_differs_from_reference", r.layoutNote+" — layout "+lb.Name)
			}
			tiers := 0
			for _, t := range [][]refEntry{m.rot, m.cur, m.mem} {
				if len(t) > 0 {
					tiers++
				}
			}
			c.Distinct("layouts", m.key())
			if tiers == 3 {
				c.Distinct("layouts_with_three_tiers", m.key())
			}
			// the whole state, as in phase A
			if claim(c, "B", *unit) {
				for _, v := range checkState(c, &r) {
					report(c, v, base)
				}
			}
			*unit++
			var q int64
			defer func() { c.Count("queries", q) }()
			// 1. the product of all five parameters
			one := func(req request) {
				q++
				v, res := checkQuery(e, m, req)
				if v != nil {
					report(c, v, base)
					return
				}
				if res.exact && len(res.times) > 0 && len(res.times) < len(m.alive()) {
					c.Distinct("nontrivial", lb.Name+"|"+fmtTimes(res.times))
				}
				switch {
				case res.status == 400:
					c.Count("answers_400", 1)
				case !res.exact:
					c.Count("queries_with_older_than_not_from_the_api(soundness_only)", 1)
				}
			}
			full := lb.Full || !c.Quick()
			if full {
				c.Distinct("layouts_with_full_product", lb.Name)
			} else {
				c.Distinct("layouts_with_reduced_product", lb.Name)
			}
			for _, ot := range olderThansB(m) {
				if !full {
					// quick tier, larger layouts: windows x cursor without
					// filters, and filters x cursor under two windows
					mine := claim(c, "B", *unit)
					*unit++
					if !mine {
						continue
					}
					if c.Expired() {
						return
					}
					for _, lim := range limitsB {
						for _, off := range offsetsB {
							one(request{Limit: lim, Offset: off, OlderThan: ot})
						}
					}
					for _, tm := range terms {
						for _, st := range statusesB() {
							if tm.Term == "" && st == "" {
								continue
							}
							one(request{OlderThan: ot, Search: tm.Term, Status: st})
							one(request{Limit: "2", Offset: "1", OlderThan: ot, Search: tm.Term, Status: st})
						}
					}
					continue
				}
				for _, tm := range terms {
					mine := claim(c, "B", *unit)
					*unit++
					if !mine {
						continue
					}
					if c.Expired() {
						return
					}
					for _, st := range statusesB() {
						for _, lim := range limitsB {
							for _, off := range offsetsB {
								one(request{Limit: lim, Offset: off, OlderThan: ot, Search: tm.Term, Status: st})
							}
						}
					}
				}
			}
			// 2. malformed and extreme values
			for _, req := range malformedB {
				mine := claim(c, "B", *unit)
				*unit++
				if !mine {
					continue
				}
				q++
				if v, _ := checkQuery(e, m, req); v != nil {
					report(c, v, base)
				}
			}
			// 3. paging under every filter
			for _, tm := range terms {
				for _, st := range append([]string{""}, validStatuses...) {
					mine := claim(c, "B", *unit)
					*unit++
					if !mine {
						continue
					}
					for _, lim := range []int{1, 2, 3} {
						if v := checkCursorPaging(e, m, lim, tm.Term, st, &q); v != nil {
							report(c, v, base)
						}
						if v := checkOffsetPaging(e, m, lim, tm.Term, st, &q); v != nil {
							report(c, v, base)
						}
						c.Count("paging_walks", 2)
					}
				}
			}
			// 4. quick pre-match never rejects what the full match accepts
			lay := e.observe()
			lines := append(append(append([]string{}, lay.rot...), lay.cur...), lay.mem...)
			for _, tm := range terms {
				mine := claim(c, "B", *unit)
				*unit++
				if !mine {
					continue
				}
				for _, st := range append([]string{""}, validStatuses...) {
					rq := request{Search: tm.Term, Status: st}
					for _, line := range lines {
						c.Count("quickmatch_checks", 1)
						if v := checkQuickMatch(e, rq, line); v != nil {
							report(c, v, base)
						}
					}
				}
			}
		}()
	}
	c.Note("phaseB", fmt.Sprintf("%d layouts x older_than(absent, every entry, between neighbours, before first, after last, malformed) x %d search terms x %d statuses x %d limits x %d offsets; paging by cursor and by offset with limit 1,2,3 under every filter; %d malformed/extreme requests",
		len(layoutsB(c.Quick())), len(terms), len(statusesB()), len(limitsB), len(offsetsB), len(malformedB)))
}

func checkQuickMatch(e *env, rq request, line string) *viol {
	quick, full, err := e.v.MatchLine(rq.rawQuery(), line)
	if err != nil {
		return &viol{Key: "quickmatch:criteria-not-parsed", Desc: fmt.Sprintf("criteria %s: %v", decodedQuery(rq), err), Check: check{Type: "quickmatch", Req: &rq, Line: line}}
	}
	if full && !quick {
		return &viol{Key: "quickmatch:rejects-a-line-the-full-match-accepts:search=" + classOfSearch(rq.Search),
			Desc:  fmt.Sprintf("criteria %s: the quick pre-match rejects a stored line that the full match accepts, so the entry is found in memory but not in a file:\n%s", decodedQuery(rq), line),
			Check: check{Type: "quickmatch", Req: &rq, Line: line}}
	}
	return nil
}

// ---- runner -------------------------------------------------------------------

func setup() {
	// Every file search of the code under test allocates a 1.6 MB read buffer
	// per file; collect rarely.
	debug.SetGCPercent(-1)
	debug.SetMemoryLimit(512 << 20)
	time.Local = time.UTC
	log.SetOutput(io.Discard)
	log.SetLevel(log.ERROR)
}

func runAll(c *lib.Ctx) {
	// Requests with extreme limit/offset values are part of the alphabet: an
	// address-space limit turns a runaway allocation of the code under test
	// into an immediate fatal error of this worker instead of exhausting the
	// machine.
	_ = syscall.Setrlimit(syscall.RLIMIT_AS, &syscall.Rlimit{Cur: 24 << 30, Max: 24 << 30})
	setup()
	defer vtime.SetVirtual(time.Time{})
	unit := 0
	only := os.Getenv("C07_PHASE") // development switch
	start := time.Now()
	if c.ShardI == 0 {
		prepass(c)
	}
	// Phase A (the model-checking part) first, with at most 60 % of the
	// budget, so that an overloaded machine still leaves time for phase B.
	final := c.Deadline
	if only == "" && !final.IsZero() {
		c.Deadline = start.Add(final.Sub(start) * 6 / 10)
	}
	if only != "B" {
		phaseA(c, &unit)
	}
	c.Deadline = final
	ta := time.Since(start)
	unit = 0
	if only != "A" {
		phaseB(c, &unit)
	}
	if only == "" || only == "C" {
		phaseLong(c)
	}
	tb := time.Since(start) - ta
	if os.Getenv("C07_TIMING") != "" {
		c.Note(fmt.Sprintf("timing_shard%02d", c.ShardI), fmt.Sprintf("A %.1fs B %.1fs", ta.Seconds(), tb.Seconds()))
	}
}

// ---- phase C: a log longer than one scan window --------------------------------

// bulk describes a long log compactly: NOld records of kind Old, then NBulk
// records of kind Bulk, flushed to the current file, then NNew of kind Old in
// memory.
type bulk struct {
	Old   int `json:"old_kind"`
	NOld  int `json:"old_count"`
	Bulk  int `json:"bulk_kind"`
	NBulk int `json:"bulk_count"`
	NNew  int `json:"new_count"`
}

func (b bulk) String() string {
	return fmt.Sprintf("[%d x rec(%s), %d x rec(%s), flush, %d x rec(%s)]", b.NOld, kinds[b.Old].Name, b.NBulk, kinds[b.Bulk].Name, b.NNew, kinds[b.Old].Name)
}

// runBulk is run without the per-operation layout comparison (quadratic on a
// log of this length); the layout is compared once at the end.
func runBulk(tmp string, b bulk) (res runResult, err error) {
	vtime.SetVirtual(t0)
	cf := cfg{Mem: uint(b.NOld + b.NBulk + b.NNew + 10), File: true}
	e, err := newEnv(tmp, cf)
	if err != nil {
		return res, err
	}
	m := &model{cf: cf, enabled: true}
	res.e, res.m, res.applicable = e, m, true
	step := func(o op) error {
		if o.Kind == "rec" {
			vtime.AdvanceVirtual(time.Second)
		}
		now := vtime.Now()
		stored, err := e.do(o, m)
		if err != nil {
			return fmt.Errorf("%s: %w", o, err)
		}
		m.apply(o, now, stored)
		return nil
	}
	for i := 0; i < b.NOld+b.NBulk; i++ {
		k := b.Bulk
		if i < b.NOld {
			k = b.Old
		}
		if err = step(op{Kind: "rec", K: k}); err != nil {
			return res, err
		}
	}
	if err = step(op{Kind: "flush"}); err != nil {
		return res, err
	}
	for i := 0; i < b.NNew; i++ {
		if err = step(op{Kind: "rec", K: b.Old}); err != nil {
			return res, err
		}
	}
	lay := e.observe()
	rt, e1 := lineTimes(lay.rot)
	ct, e2 := lineTimes(lay.cur)
	mt, e3 := lineTimes(lay.mem)
	if e1 != nil || e2 != nil || e3 != nil || !sameTimes(rt, m.rot) || !sameTimes(ct, m.cur) || !sameTimes(mt, m.mem) {
		res.corrupt = true
		res.layoutNote = fmt.Sprintf("stored entries differ from the reference: stored %d/%d/%d lines (rotated/current/memory), reference %d/%d/%d", len(rt), len(ct), len(mt), len(m.rot), len(m.cur), len(m.mem))
	}
	return res, nil
}

// phaseLong: the file search stops after a fixed number of scanned records
// per request unless paging by offset is used; entries older than one such
// window must still be reachable by both ways of paging.  The window (50 000
// records in search.go) cannot be crossed by the small layouts of phases A/B.
func phaseLong(c *lib.Ctx) {
	// The second layout: 40 records whose stored lines are about 8 KiB (the
	// timestamp search of the cursor probes deep into such lines).
	bs := []bulk{{Old: 1, NOld: 3, Bulk: 0, NBulk: 50010, NNew: 1}, {Old: 1, NOld: 3, Bulk: 14, NBulk: 40, NNew: 1}}
	if !c.Quick() {
		bs = append(bs, bulk{Old: 2, NOld: 4, Bulk: 11, NBulk: 100020, NNew: 2}, bulk{Old: 0, NOld: 2, Bulk: 2, NBulk: 50000, NNew: 0})
	}
	for i, b := range bs {
		if !c.Mine(3+i*5) || c.Expired() {
			continue
		}
		r, err := runBulk(c.TmpDir, b)
		if err != nil {
			c.EngineError(fmt.Sprintf("long log %s: %v", b, err))
			if r.e != nil {
				r.e.close()
			}
			continue
		}
		func() {
			defer r.e.close()
			base := vcase{Phase: "C", Layout: "longer-than-one-scan-window", Cfg: r.m.cf, Bulk: &b, HistS: b.String()}
			rep := func(v *viol) {
				if v == nil {
					return
				}
				vc := base
				vc.Check = v.Check
				d := v.Desc
				if len(d) > 1500 {
					d = d[:1500] + " …"
				}
				c.Violation(v.Key, fmt.Sprintf("%s\nhistory: %s", d, b), vc)
			}
			if r.corrupt {
				rep(&viol{Key: "layout:long-log", Desc: r.layoutNote, Check: check{Type: "long-layout"}})
				return
			}
			var q int64
			name := kinds[b.Old].XName
			before := c.NumViolationKeys()
			for _, search := range []string{name, `"` + name + `"`} {
				for _, off := range []string{"0", "1"} {
					q++
					v, res := checkQuery(r.e, r.m, request{Limit: "10", Offset: off, Search: search})
					rep(v)
					if v == nil && off != "" && len(res.times) > 1 {
						c.Distinct("nontrivial", "long|"+b.String()+"|"+search+"|"+off)
					}
				}
				rep(checkOffsetPaging(r.e, r.m, 2, search, "", &q))
				rep(cursorConcat(r.e, r.m, 2, search, &q))
			}
			if b.NBulk < 1000 {
				// a short log of long lines: follow the cursor over everything
				rep(cursorConcat(r.e, r.m, 3, "", &q))
				rep(cursorConcat(r.e, r.m, 1, kinds[b.Bulk].XName, &q))
			}
			// the unfiltered newest page and a deep offset into the bulk
			for _, rq := range []request{{Limit: "3"}, {Limit: "3", Offset: "0"}, {Limit: "3", Search: kinds[b.Bulk].XName}, {Limit: "4", Offset: strconv.Itoa(b.NBulk + b.NNew - 2)}, {Limit: "2", Offset: strconv.Itoa(b.NBulk + b.NNew + b.NOld - 1)}} {
				q++
				v, _ := checkQuery(r.e, r.m, rq)
				rep(v)
			}
			c.Count("queries", q)
			c.Count("long_log_layouts", 1)
			c.Max("long_log_records", int64(b.NOld+b.NBulk+b.NNew))
			if c.NumViolationKeys() == before {
				c.Sample(map[string]any{"phase": "C", "history": b.String(), "queries": q})
			}
		}()
	}
}

// cursorConcat follows the returned cursor over a log longer than one scan
// window.  A page may then be short (the scan stopped) while the cursor goes
// on, so only the concatenation of the pages is compared with the reference.
func cursorConcat(e *env, m *model, limit int, search string, queries *int64) *viol {
	want := filterRef(m, search, "")
	ck := check{Type: "cursor-concat", Limit: limit, Req: &request{Search: search}}
	var got []time.Time
	cursor := ""
	maxPages := len(want) + len(m.alive())/1000 + 10
	for page := 0; ; page++ {
		rq := request{Limit: strconv.Itoa(limit), OlderThan: cursor, Search: search}
		*queries++
		hr := e.call(http.MethodGet, "/control/querylog", rq.rawQuery(), nil)
		var ar apiResp
		if hr.Panic != "" || hr.Status != 200 || json.Unmarshal(hr.Body, &ar) != nil {
			return &viol{Key: "paging:cursor:long-log:request-failed", Desc: fmt.Sprintf("page %d (older_than=%q): HTTP %d panic %q", page+1, cursor, hr.Status, hr.Panic), Check: ck}
		}
		if len(ar.Data) > limit {
			return &viol{Key: "unexpected:more-than-limit", Desc: fmt.Sprintf("page %d has %d entries for limit=%d", page+1, len(ar.Data), limit), Check: ck}
		}
		for _, d := range ar.Data {
			t, err := time.Parse(time.RFC3339Nano, d.Time)
			if err != nil {
				return &viol{Key: "body:bad-time", Desc: d.Time, Check: ck}
			}
			got = append(got, t)
		}
		if ar.Oldest == "" {
			break
		}
		if page > maxPages {
			return &viol{Key: "paging:cursor:does-not-terminate", Desc: fmt.Sprintf("still a cursor after %d pages", page+1), Check: ck}
		}
		cursor = ar.Oldest
	}
	if !equalTimes(got, want) {
		return &viol{Key: "paging:cursor:pages-do-not-partition-the-log", Desc: fmt.Sprintf("pages by cursor over a log of %d records (limit=%d search=%q) concatenate to %s, expected %s", len(m.alive()), limit, search, fmtTimes(got), fmtRef(want)), Check: ck}
	}
	return nil
}

func replay(c *lib.Ctx, raw json.RawMessage) string {
	setup()
	var vc vcase
	if err := json.Unmarshal(raw, &vc); err != nil {
		return "bad case: " + err.Error()
	}
	var r runResult
	var err error
	if vc.Bulk != nil {
		r, err = runBulk(c.TmpDir, *vc.Bulk)
	} else {
		r, err = run(c.TmpDir, vc.Cfg, vc.Hist)
	}
	if r.e != nil {
		defer r.e.close()
	}
	if err != nil {
		return "engine: " + err.Error()
	}
	var vs []*viol
	var q int64
	rq := request{}
	if vc.Check.Req != nil {
		rq = *vc.Check.Req
	}
	switch vc.Check.Type {
	case "query":
		v, _ := checkQuery(r.e, r.m, rq)
		vs = append(vs, v)
	case "cursor-paging":
		vs = append(vs, checkCursorPaging(r.e, r.m, vc.Check.Limit, rq.Search, rq.Status, &q))
	case "offset-paging":
		vs = append(vs, checkOffsetPaging(r.e, r.m, vc.Check.Limit, rq.Search, rq.Status, &q))
	case "roundtrip":
		vs = append(vs, checkRoundTrip(r.e, "stored", vc.Check.Line))
	case "quickmatch":
		vs = append(vs, checkQuickMatch(r.e, rq, vc.Check.Line))
	case "cursor-concat":
		vs = append(vs, cursorConcat(r.e, r.m, vc.Check.Limit, rq.Search, &q))
	case "long-layout":
		if r.corrupt {
			return r.layoutNote
		}
		return ""
	default:
		vs = checkState(c, &r)
	}
	var out []string
	for _, v := range vs {
		if v != nil {
			out = append(out, v.Key+": "+v.Desc)
		}
	}
	if len(out) > 0 {
		if vc.Bulk != nil {
			return strings.Join(out, "\n") + "\nhistory: " + vc.Bulk.String()
		}
		return strings.Join(out, "\n") + "\nhistory: " + histString(vc.Hist) + " config mem_size=" + strconv.Itoa(int(vc.Cfg.Mem))
	}
	return ""
}

func main() {
	lib.Main(&lib.Harness{
		Prop: "C07", Level: "model_checking",
		Shards: func(string) int { return 16 },
		Budget: func(tier string) time.Duration {
			if tier == "thorough" {
				return 18 * time.Minute
			}
			return 4 * time.Minute
		},
		Run: runAll, Replay: replay,
		Evidence: func(m *lib.Merged) map[string]any {
			return map[string]any{
				"states":                        m.Distinct["states"],
				"transitions":                   m.Counters["transitions"],
				"traces_validated_against_impl": m.Counters["transitions"],
				"evaluations":                   m.Counters["transitions"] + m.Counters["queries"] + m.Counters["quickmatch_checks"] + m.Counters["roundtrip_checks"],
				"api_queries":                   m.Counters["queries"],
				"paging_walks":                  m.Counters["paging_walks"],
				"quickmatch_checks":             m.Counters["quickmatch_checks"],
				"decode_roundtrip_checks":       m.Counters["roundtrip_checks"],
				"distinct_nontrivial":           m.Distinct["nontrivial"],
				"distinct_outcomes":             m.Distinct["outcomes"],
				"layouts_phaseB":                m.Distinct["layouts"],
				"layouts_with_three_tiers":      m.Distinct["layouts_with_three_tiers"],
				"layouts_with_full_product":     m.Distinct["layouts_with_full_product"],
				"layouts_with_reduced_product":  m.Distinct["layouts_with_reduced_product"],
				"layout_differs_from_reference": m.Counters["layout_differs_from_reference"],
				"max_depth":                     m.Maxes["max_depth_full"],
				"phaseA_units":                  m.Distinct["phaseA_units"],
				"phaseA_units_completed":        m.Counters["phaseA_units_completed"] + m.Counters["units_skipped_first_op_is_noop"],
				"note_units":                    "phase A is dealt to workers as units (config, first operation); the bfs_* notes of the library are relative to a unit (history depth = note + 1); a unit whose first operation is a no-op on the empty log is skipped because [no-op]+h reaches what h reaches",
				"rule":                          "phase A: BFS over histories of record(kind)/flush/rotate/clear/restart/enabled-toggle/anonymize-toggle on the real queryLog (fresh temp dir and virtual clock per history, records 1 s apart, the asynchronous flush is awaited after every operation); a state is (entry kinds and stored client address per tier, toggles, mem_size, file_enabled), absolute timestamps are not in the key (only their order influences the code, all stored lines have the same timestamp width); after every transition the unfiltered GET /control/querylog must equal reverse(rotated++current++memory) field by field, every stored line must survive decode+encode, and paging by cursor and by offset (limit 1,2) must partition the sequence. non-trivial (phase A) = transition that changes the stored layout or a toggle. phase B: full product of limit x offset x older_than x search x response_status on fixed layouts against an independent predicate; non-trivial (phase B) = distinct non-empty proper sub-sequence returned by an exactly-checked query",
			}
		},
		Assumptions: []string{
			"the client address shown is the recorded one, masked when anonymisation is on at query time (entries recorded before anonymisation was switched on are shown masked; entries recorded while it was on stay masked) — taken as the intended privacy behaviour",
			"with file logging off the log keeps the last mem_size entries; restart and flush are not in that configuration's alphabet",
			"older_than values that are not a timestamp of a live entry (the API only ever hands out entry timestamps as cursors) are checked for soundness only: no crash, only live matching entries older than the value, in order, no duplicates",
			"negative or overflowing limit/offset and malformed values must not crash the handler (HTTP 200 or 400 both accepted); their result is not otherwise specified",
			"Unicode search terms are whole labels or whole names (upstream documents that parts of IDN labels are not searchable)",
			"the 50000-record file scan cap of cursor searches is out of reach of these bounds",
			"ignored hosts and per-client ignore are left to C08 (empty ignore list here)",
		},
	})
}
