package main

import (
	"net"
	"net/netip"
	"strings"
	"time"

	"github.com/AdguardTeam/AdGuardHome/internal/filtering"
	"github.com/AdguardTeam/AdGuardHome/internal/querylog"
	"github.com/AdguardTeam/urlfilter/rules"
	"github.com/miekg/dns"
)

// ans is one answer record as the API shows it.
type ans struct {
	Type  string `json:"type"`
	Value string `json:"value"`
	TTL   uint32 `json:"ttl"`
}

type expRule struct {
	ID   int
	Text string
}

// kind is one shape of recorded query: the inputs given to Add and, written
// down independently, what the API must show for it.
type kind struct {
	Name string

	// inputs
	QName    string
	QType    uint16
	QClass   uint16
	IP       string
	ClientID string
	Proto    querylog.ClientProto
	Upstream string
	Elapsed  time.Duration
	Cached   bool
	AD       bool
	ECS      string
	Result   func() *filtering.Result
	Answer   func() *dns.Msg
	Orig     func() *dns.Msg

	// expectations
	MaskedIP  string // what anonymisation turns IP into
	XName     string
	XUnicode  string // "" = no unicode_name
	XType     string
	XClass    string
	XReason   string
	XFiltered bool // Result.IsFiltered
	XElapsed  string
	XRules    []expRule
	XService  string
	XStatus   string // "" = no answer recorded
	XDNSSEC   bool
	XAnswer   []ans
	XOrig     []ans
}

func reply(name string, qtype uint16, rcode int, ad bool, rrs ...string) func() *dns.Msg {
	return func() *dns.Msg {
		m := new(dns.Msg)
		m.SetQuestion(name, qtype)
		m.Response = true
		m.Rcode = rcode
		m.AuthenticatedData = ad
		for _, s := range rrs {
			rr, err := dns.NewRR(s)
			if err != nil {
				panic(err)
			}
			m.Answer = append(m.Answer, rr)
		}
		return m
	}
}

func addr(s string) netip.Addr { return netip.MustParseAddr(s) }

// Identifiers known to the client registry stub.
var clientNames = map[string]string{
	"cid-a":    "alice laptop",
	"10.0.0.2": "bobphone",
	"10.0.0.4": "caroltv",
}

func findClient(ids []string) (*querylog.Client, error) {
	for _, id := range ids {
		if n, ok := clientNames[id]; ok {
			return &querylog.Client{Name: n}, nil
		}
	}
	return nil, nil
}

// refClientName is the reference's own lookup: ClientID first, then address.
func refClientName(clientID, ip string) string {
	if clientID != "" {
		if n, ok := clientNames[clientID]; ok {
			return n
		}
	}
	return clientNames[ip]
}

var kinds = []kind{
	{ // 0
		Name: "plain", QName: "ExAmple.ORG.", QType: dns.TypeA, QClass: dns.ClassINET,
		IP: "10.0.0.1", MaskedIP: "10.0.0.0", Proto: querylog.ClientProtoPlain, Upstream: "8.8.8.8:53",
		Elapsed: 1500 * time.Microsecond, XElapsed: "1.5",
		Result: func() *filtering.Result { return &filtering.Result{} },
		Answer: reply("example.org.", dns.TypeA, dns.RcodeSuccess, false, "example.org. 300 IN A 1.2.3.4"),
		XName:  "example.org", XType: "A", XClass: "IN", XReason: "NotFilteredNotFound",
		XStatus: "NOERROR", XAnswer: []ans{{"A", "1.2.3.4", 300}},
	},
	{ // 1
		Name: "allowlisted", QName: "allowed.example.", QType: dns.TypeAAAA, QClass: dns.ClassINET,
		IP: "10.0.0.1", MaskedIP: "10.0.0.0", ClientID: "cid-a", Proto: querylog.ClientProtoDoH, Upstream: "https://dns.example/dns-query",
		Elapsed: 20 * time.Millisecond, XElapsed: "20",
		Result: func() *filtering.Result {
			return &filtering.Result{Reason: filtering.NotFilteredAllowList, Rules: []*filtering.ResultRule{{Text: "@@||allowed.example^", FilterListID: 1}}}
		},
		Answer: reply("allowed.example.", dns.TypeAAAA, dns.RcodeSuccess, true, "allowed.example. 60 IN AAAA 2001:db8::1"),
		XName:  "allowed.example", XType: "AAAA", XClass: "IN", XReason: "NotFilteredWhiteList",
		XRules: []expRule{{1, "@@||allowed.example^"}}, XStatus: "NOERROR", XDNSSEC: true, XAnswer: []ans{{"AAAA", "2001:db8::1", 60}},
	},
	{ // 2
		Name: "blocked", QName: "ads.example.", QType: dns.TypeA, QClass: dns.ClassINET,
		IP: "10.0.0.2", MaskedIP: "10.0.0.0", Proto: querylog.ClientProtoPlain,
		Elapsed: 250 * time.Microsecond, XElapsed: "0.25",
		Result: func() *filtering.Result {
			return &filtering.Result{IsFiltered: true, Reason: filtering.FilteredBlockList, Rules: []*filtering.ResultRule{{Text: "||ads.example^", FilterListID: 2}}}
		},
		Answer: reply("ads.example.", dns.TypeA, dns.RcodeSuccess, false, "ads.example. 10 IN A 0.0.0.0"),
		XName:  "ads.example", XType: "A", XClass: "IN", XReason: "FilteredBlackList", XFiltered: true,
		XRules: []expRule{{2, "||ads.example^"}}, XStatus: "NOERROR", XAnswer: []ans{{"A", "0.0.0.0", 10}},
	},
	{ // 3
		Name: "blocked-hosts-rule", QName: "tracker.example.", QType: dns.TypeA, QClass: dns.ClassINET,
		IP: "10.0.0.1", MaskedIP: "10.0.0.0", Proto: querylog.ClientProtoDoT,
		Elapsed: time.Millisecond, XElapsed: "1",
		Result: func() *filtering.Result {
			return &filtering.Result{IsFiltered: true, Reason: filtering.FilteredBlockList, Rules: []*filtering.ResultRule{{Text: "0.0.0.0 tracker.example", IP: addr("0.0.0.0"), FilterListID: 3}}}
		},
		Answer: reply("tracker.example.", dns.TypeA, dns.RcodeSuccess, false, "tracker.example. 10 IN A 0.0.0.0"),
		XName:  "tracker.example", XType: "A", XClass: "IN", XReason: "FilteredBlackList", XFiltered: true,
		XRules: []expRule{{3, "0.0.0.0 tracker.example"}}, XStatus: "NOERROR", XAnswer: []ans{{"A", "0.0.0.0", 10}},
	},
	{ // 4
		Name: "safebrowsing", QName: "malware.example.", QType: dns.TypeA, QClass: dns.ClassINET,
		IP: "2001:db8::1234:5678", MaskedIP: "2001:db8::", ClientID: "cid-b", Proto: querylog.ClientProtoDoQ,
		Elapsed: 3 * time.Millisecond, XElapsed: "3",
		Result: func() *filtering.Result {
			return &filtering.Result{IsFiltered: true, Reason: filtering.FilteredSafeBrowsing, Rules: []*filtering.ResultRule{{Text: "adguard-malware-shavar", FilterListID: -4}}}
		},
		Answer: reply("malware.example.", dns.TypeA, dns.RcodeSuccess, false, "malware.example. 10 IN A 94.140.14.35"),
		XName:  "malware.example", XType: "A", XClass: "IN", XReason: "FilteredSafeBrowsing", XFiltered: true,
		XRules: []expRule{{-4, "adguard-malware-shavar"}}, XStatus: "NOERROR", XAnswer: []ans{{"A", "94.140.14.35", 10}},
	},
	{ // 5
		Name: "parental", QName: "adult.example.", QType: dns.TypeA, QClass: dns.ClassINET,
		IP: "10.0.0.3", MaskedIP: "10.0.0.0", Proto: querylog.ClientProtoDNSCrypt,
		Elapsed: 2 * time.Millisecond, XElapsed: "2",
		Result: func() *filtering.Result {
			return &filtering.Result{IsFiltered: true, Reason: filtering.FilteredParental, Rules: []*filtering.ResultRule{{Text: "parental CATEGORY_BLACKLISTED", FilterListID: -3}}}
		},
		Answer: reply("adult.example.", dns.TypeA, dns.RcodeSuccess, false, "adult.example. 10 IN A 94.140.14.35"),
		XName:  "adult.example", XType: "A", XClass: "IN", XReason: "FilteredParental", XFiltered: true,
		XRules: []expRule{{-3, "parental CATEGORY_BLACKLISTED"}}, XStatus: "NOERROR", XAnswer: []ans{{"A", "94.140.14.35", 10}},
	},
	{ // 6
		Name: "safesearch", QName: "www.google.com.", QType: dns.TypeA, QClass: dns.ClassINET,
		IP: "10.0.0.1", MaskedIP: "10.0.0.0", Proto: querylog.ClientProtoPlain, Upstream: "8.8.8.8:53", Cached: true,
		Elapsed: 100 * time.Microsecond, XElapsed: "0.1",
		Result: func() *filtering.Result {
			return &filtering.Result{IsFiltered: true, Reason: filtering.FilteredSafeSearch, Rules: []*filtering.ResultRule{{IP: addr("216.239.38.120"), FilterListID: -5}}}
		},
		Answer: reply("www.google.com.", dns.TypeA, dns.RcodeSuccess, false,
			"www.google.com. 10 IN CNAME forcesafesearch.google.com.", "forcesafesearch.google.com. 10 IN A 216.239.38.120"),
		XName: "www.google.com", XType: "A", XClass: "IN", XReason: "FilteredSafeSearch", XFiltered: true,
		XRules: []expRule{{-5, ""}}, XStatus: "NOERROR",
		XAnswer: []ans{{"CNAME", "forcesafesearch.google.com.", 10}, {"A", "216.239.38.120", 10}},
	},
	{ // 7
		Name: "blocked-service", QName: "youtube.com.", QType: dns.TypeA, QClass: dns.ClassINET,
		IP: "10.0.0.2", MaskedIP: "10.0.0.0", ClientID: "cid-a", Proto: querylog.ClientProtoDoH,
		Elapsed: 500 * time.Microsecond, XElapsed: "0.5",
		Result: func() *filtering.Result {
			return &filtering.Result{IsFiltered: true, Reason: filtering.FilteredBlockedService, ServiceName: "youtube", Rules: []*filtering.ResultRule{{Text: "||youtube.com^", FilterListID: -2}}}
		},
		Answer: reply("youtube.com.", dns.TypeA, dns.RcodeNameError, false),
		XName:  "youtube.com", XType: "A", XClass: "IN", XReason: "FilteredBlockedService", XFiltered: true,
		XRules: []expRule{{-2, "||youtube.com^"}}, XService: "youtube", XStatus: "NXDOMAIN",
	},
	{ // 8
		Name: "rewritten-legacy", QName: "rewritten.example.", QType: dns.TypeA, QClass: dns.ClassINET,
		IP: "10.0.0.1", MaskedIP: "10.0.0.0", Proto: querylog.ClientProtoPlain,
		Elapsed: 4 * time.Millisecond, XElapsed: "4",
		Result: func() *filtering.Result {
			return &filtering.Result{Reason: filtering.Rewritten, CanonName: "canon.example", IPList: []netip.Addr{addr("1.1.1.1"), addr("2001:db8::1")}}
		},
		Answer: reply("rewritten.example.", dns.TypeA, dns.RcodeSuccess, false,
			"rewritten.example. 10 IN CNAME canon.example.", "canon.example. 10 IN A 1.1.1.1"),
		XName: "rewritten.example", XType: "A", XClass: "IN", XReason: "Rewrite",
		XStatus: "NOERROR", XAnswer: []ans{{"CNAME", "canon.example.", 10}, {"A", "1.1.1.1", 10}},
	},
	{ // 9
		Name: "rewritten-etc-hosts", QName: "5.1.168.192.in-addr.arpa.", QType: dns.TypePTR, QClass: dns.ClassINET,
		IP: "192.168.1.77", MaskedIP: "192.168.0.0", Proto: querylog.ClientProtoPlain,
		Elapsed: 50 * time.Microsecond, XElapsed: "0.05",
		Result: func() *filtering.Result {
			return &filtering.Result{Reason: filtering.RewrittenAutoHosts,
				DNSRewriteResult: &filtering.DNSRewriteResult{RCode: dns.RcodeSuccess, Response: filtering.DNSRewriteResultResponse{dns.TypePTR: []rules.RRValue{"myhost.lan."}}},
				Rules:            []*filtering.ResultRule{{Text: "192.168.1.5 myhost.lan", FilterListID: -1}}}
		},
		Answer: reply("5.1.168.192.in-addr.arpa.", dns.TypePTR, dns.RcodeSuccess, false, "5.1.168.192.in-addr.arpa. 10 IN PTR myhost.lan."),
		XName:  "5.1.168.192.in-addr.arpa", XType: "PTR", XClass: "IN", XReason: "RewriteEtcHosts",
		XRules: []expRule{{-1, "192.168.1.5 myhost.lan"}}, XStatus: "NOERROR", XAnswer: []ans{{"PTR", "myhost.lan.", 10}},
	},
	{ // 10
		Name: "rewritten-rule", QName: "rw.example.", QType: dns.TypeA, QClass: dns.ClassINET,
		IP: "10.0.0.1", MaskedIP: "10.0.0.0", Proto: querylog.ClientProtoPlain, Upstream: "9.9.9.9:53",
		Elapsed: 7 * time.Millisecond, XElapsed: "7",
		Result: func() *filtering.Result {
			return &filtering.Result{Reason: filtering.RewrittenRule,
				DNSRewriteResult: &filtering.DNSRewriteResult{RCode: dns.RcodeSuccess, Response: filtering.DNSRewriteResultResponse{
					dns.TypeA:    []rules.RRValue{addr("1.2.3.4"), addr("1.2.3.5")},
					dns.TypeAAAA: []rules.RRValue{addr("2001:db8::2")},
					dns.TypeTXT:  []rules.RRValue{"hello world"},
				}},
				Rules: []*filtering.ResultRule{{Text: "||rw.example^$dnsrewrite=1.2.3.4", FilterListID: 5}, {Text: "||rw.example^$dnsrewrite=1.2.3.5", FilterListID: 5}}}
		},
		Answer: reply("rw.example.", dns.TypeA, dns.RcodeSuccess, false, "rw.example. 10 IN A 1.2.3.4", "rw.example. 10 IN A 1.2.3.5"),
		Orig:   reply("rw.example.", dns.TypeA, dns.RcodeSuccess, false, "rw.example. 3600 IN A 9.9.9.9"),
		XName:  "rw.example", XType: "A", XClass: "IN", XReason: "RewriteRule",
		XRules:  []expRule{{5, "||rw.example^$dnsrewrite=1.2.3.4"}, {5, "||rw.example^$dnsrewrite=1.2.3.5"}},
		XStatus: "NOERROR", XAnswer: []ans{{"A", "1.2.3.4", 10}, {"A", "1.2.3.5", 10}}, XOrig: []ans{{"A", "9.9.9.9", 3600}},
	},
	{ // 11
		Name: "idn-cached-ad-ecs", QName: "xn--e1afmkfd.xn--p1ai.", QType: dns.TypeA, QClass: dns.ClassINET,
		IP: "10.0.0.3", MaskedIP: "10.0.0.0", ClientID: "cid-b", Proto: querylog.ClientProtoDoT, Upstream: "tls://dns.example", Cached: true, AD: true, ECS: "1.2.3.0/24",
		Elapsed: 10 * time.Microsecond, XElapsed: "0.01",
		Result: func() *filtering.Result { return &filtering.Result{} },
		Answer: reply("xn--e1afmkfd.xn--p1ai.", dns.TypeA, dns.RcodeSuccess, false, "xn--e1afmkfd.xn--p1ai. 30 IN A 5.6.7.8"),
		XName:  "xn--e1afmkfd.xn--p1ai", XUnicode: "пример.рф", XType: "A", XClass: "IN", XReason: "NotFilteredNotFound",
		XStatus: "NOERROR", XDNSSEC: true, XAnswer: []ans{{"A", "5.6.7.8", 30}},
	},
	{ // 12
		Name: "invalid-no-answer", QName: "version.bind.", QType: dns.TypeTXT, QClass: dns.ClassCHAOS,
		IP: "10.0.0.1", MaskedIP: "10.0.0.0", Proto: querylog.ClientProtoPlain,
		Elapsed: time.Microsecond, XElapsed: "0.001",
		Result: func() *filtering.Result {
			return &filtering.Result{IsFiltered: true, Reason: filtering.FilteredInvalid}
		},
		XName: "version.bind", XType: "TXT", XClass: "CH", XReason: "FilteredInvalid", XFiltered: true,
	},
	{ // 13
		Name: "rewritten-rule-nxdomain", QName: "gone.example.", QType: dns.TypeA, QClass: dns.ClassINET,
		IP: "10.0.0.2", MaskedIP: "10.0.0.0", Proto: querylog.ClientProtoPlain,
		Elapsed: 30 * time.Microsecond, XElapsed: "0.03",
		Result: func() *filtering.Result {
			return &filtering.Result{Reason: filtering.RewrittenRule, DNSRewriteResult: &filtering.DNSRewriteResult{RCode: dns.RcodeNameError},
				Rules: []*filtering.ResultRule{{Text: "||gone.example^$dnsrewrite=NXDOMAIN", FilterListID: 0}}}
		},
		Answer: reply("gone.example.", dns.TypeA, dns.RcodeNameError, false),
		XName:  "gone.example", XType: "A", XClass: "IN", XReason: "RewriteRule",
		XRules: []expRule{{0, "||gone.example^$dnsrewrite=NXDOMAIN"}}, XStatus: "NXDOMAIN",
	},
	{ // 14: a large but legal answer: the stored line is about 8 KiB (limit 16 KiB)
		Name: "big-txt-answer", QName: "big.example.", QType: dns.TypeTXT, QClass: dns.ClassINET,
		IP: "10.0.0.2", MaskedIP: "10.0.0.0", Proto: querylog.ClientProtoPlain, Upstream: "8.8.8.8:53",
		Elapsed: 2 * time.Millisecond, XElapsed: "2",
		Result: func() *filtering.Result { return &filtering.Result{} },
		Answer: reply("big.example.", dns.TypeTXT, dns.RcodeSuccess, false, "big.example. 120 IN TXT "+bigTXT),
		XName:  "big.example", XType: "TXT", XClass: "IN", XReason: "NotFilteredNotFound",
		XStatus: "NOERROR", XAnswer: []ans{{"TXT", bigTXT, 120}},
	},
	{ // 15: a ClientID that belongs to nobody, from the address of a known client
		Name: "unknown-clientid-from-bobphone", QName: "shared.example.", QType: dns.TypeA, QClass: dns.ClassINET,
		IP: "10.0.0.2", MaskedIP: "10.0.0.0", ClientID: "cid-u", Proto: querylog.ClientProtoDoT, Upstream: "8.8.8.8:53",
		Elapsed: time.Millisecond, XElapsed: "1",
		Result: func() *filtering.Result { return &filtering.Result{} },
		Answer: reply("shared.example.", dns.TypeA, dns.RcodeSuccess, false, "shared.example. 300 IN A 1.2.3.9"),
		XName:  "shared.example", XType: "A", XClass: "IN", XReason: "NotFilteredNotFound",
		XStatus: "NOERROR", XAnswer: []ans{{"A", "1.2.3.9", 300}},
	},
	{ // 16: the same ClientID from the address of another known client
		Name: "unknown-clientid-from-caroltv", QName: "shared.example.", QType: dns.TypeA, QClass: dns.ClassINET,
		IP: "10.0.0.4", MaskedIP: "10.0.0.0", ClientID: "cid-u", Proto: querylog.ClientProtoDoT, Upstream: "8.8.8.8:53",
		Elapsed: time.Millisecond, XElapsed: "1",
		Result: func() *filtering.Result { return &filtering.Result{} },
		Answer: reply("shared.example.", dns.TypeA, dns.RcodeSuccess, false, "shared.example. 300 IN A 1.2.3.9"),
		XName:  "shared.example", XType: "A", XClass: "IN", XReason: "NotFilteredNotFound",
		XStatus: "NOERROR", XAnswer: []ans{{"A", "1.2.3.9", 300}},
	},
}

// bigTXT is 24 character strings of 250 bytes in presentation format.
var bigTXT = strings.TrimSuffix(strings.Repeat(`"`+strings.Repeat("k", 250)+`" `, 24), " ")

// addParams builds the argument of Add for kind k with the client address ip
// (already passed through the anonymiser, as the DNS server does).
func (k *kind) addParams(ip net.IP) *querylog.AddParams {
	q := new(dns.Msg)
	q.SetQuestion(k.QName, k.QType)
	q.Question[0].Qclass = k.QClass
	p := &querylog.AddParams{
		Question: q, Result: k.Result(), ClientID: k.ClientID, Upstream: k.Upstream, ClientProto: k.Proto,
		ClientIP: ip, Elapsed: k.Elapsed, Cached: k.Cached, AuthenticatedData: k.AD,
	}
	if k.Answer != nil {
		p.Answer = k.Answer()
	}
	if k.Orig != nil {
		p.OrigAnswer = k.Orig()
	}
	if k.ECS != "" {
		_, n, err := net.ParseCIDR(k.ECS)
		if err != nil {
			panic(err)
		}
		p.ReqECS = n
	}
	return p
}
