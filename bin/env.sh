# Sourced by every verification command.  See DESIGN.md §2.1 for why the cache is private.
export VERIF_ROOT=/verif
export GOROOT_VERIF=/root/go/pkg/mod/golang.org/toolchain@v0.0.1-go1.24.2.linux-amd64
export GO="$GOROOT_VERIF/bin/go"
export GOTOOLCHAIN=local GOFLAGS=-mod=mod GOPROXY=off GOSUMDB=off
export GOCACHE=/verif/.cache/go-build
export GODEBUG=goindex=0
export CGO_ENABLED=1
